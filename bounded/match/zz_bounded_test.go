package match

// Bounded stand-ins for the clauses of C01 (containment of the instantiated
// pattern) and C02 (completeness) that no contract within govc's reach can
// express. They run the REAL Match on every input of a stated finite space
// and compare with executable specification functions written from the
// property text. They are labelled bounded everywhere and are never counted
// as proved.

import (
	"encoding/json"
	"fmt"
	"os"
	"runtime"
	"sort"
	"strings"
	"sync"
	"testing"
)

type J = interface{}

func js(x J) string { b, _ := json.Marshal(x); return string(b) }

// ---------- universe ----------

var scalars = []J{1.0, 2.0, "x", true, nil}

func subsetsKeys() [][]string { return [][]string{{}, {"a"}, {"b"}, {"a", "b"}} }

// values(depth, leaves, maxArr): all JSON values of at most the given depth
// over the leaves; maps over keys {a,b}; arrays up to maxArr elements without
// duplicate members (arrays are sets).
func values(depth int, leaves []J, maxArr int) []J { return valuesD(depth, leaves, maxArr, false) }

// valuesD: with dups, array elements may repeat (pattern arrays are not sets).
func valuesD(depth int, leaves []J, maxArr int, dups bool) []J {
	if depth == 0 {
		return leaves
	}
	sub := valuesD(depth-1, leaves, maxArr, dups)
	out := append([]J{}, leaves...)
	for _, ks := range subsetsKeys() {
		var rec func(i int, m map[string]J)
		rec = func(i int, m map[string]J) {
			if i == len(ks) {
				c := map[string]J{}
				for k, v := range m {
					c[k] = v
				}
				out = append(out, c)
				return
			}
			for _, v := range sub {
				m[ks[i]] = v
				rec(i+1, m)
			}
			delete(m, ks[i])
		}
		rec(0, map[string]J{})
	}
	var arr func(cur []J, start int)
	arr = func(cur []J, start int) {
		out = append(out, append([]J{}, cur...))
		if len(cur) == maxArr {
			return
		}
		for i := start; i < len(sub); i++ {
			next := i + 1 // strictly increasing index: no duplicates, order-free
			if dups {
				next = i
			}
			arr(append(cur, sub[i]), next)
		}
	}
	arr([]J{}, 0)
	return out
}

func isVar(s string) bool  { return strings.HasPrefix(s, "?") }
func isOpt(s string) bool  { return strings.HasPrefix(s, "??") }
func isAnon(s string) bool { return s == "?" }
func ineqOf(v string) (op, plain string) {
	if len(v) < 3 {
		return "", ""
	}
	rest := v[1:]
	for _, ie := range []string{"<=", ">=", "!=", ">", "<"} {
		if strings.HasPrefix(rest, ie) {
			return ie, "?" + rest[len(ie):]
		}
	}
	return "", ""
}

// ---------- containment (no variables) ----------

func contained(a, b J) bool {
	switch av := a.(type) {
	case nil:
		return b == nil
	case bool:
		bv, ok := b.(bool)
		return ok && av == bv
	case float64:
		bv, ok := b.(float64)
		return ok && av == bv
	case string:
		bv, ok := b.(string)
		return ok && av == bv
	case map[string]J:
		bm, ok := b.(map[string]J)
		if !ok {
			return false
		}
		for k, v := range av {
			w, have := bm[k]
			if !have || !contained(v, w) {
				return false
			}
		}
		return true
	case []J:
		ba, ok := b.([]J)
		if !ok {
			return false
		}
		used := make([]bool, len(ba))
		var rec func(i int) bool
		rec = func(i int) bool {
			if i == len(av) {
				return true
			}
			for j := range ba {
				if !used[j] && contained(av[i], ba[j]) {
					used[j] = true
					if rec(i + 1) {
						return true
					}
					used[j] = false
				}
			}
			return false
		}
		return rec(0)
	}
	return false
}

// ---------- fits: pattern instantiated by bs is contained in f (C01) ----------

func cmpIneq(op string, a, b float64) bool {
	switch op {
	case "<":
		return a < b
	case "<=":
		return a <= b
	case ">":
		return a > b
	case ">=":
		return a >= b
	case "!=":
		return a != b
	}
	return false
}

func fits(p J, bs Bindings, f J) bool {
	switch pv := p.(type) {
	case string:
		if !isVar(pv) {
			fv, ok := f.(string)
			return ok && fv == pv
		}
		if isAnon(pv) {
			return true
		}
		if op, plain := ineqOf(pv); op != "" {
			if bound, ok := bs[pv].(float64); ok {
				if fv, ok := f.(float64); ok && cmpIneq(op, fv, bound) {
					if got, ok := bs[plain].(float64); ok && got == fv {
						return true
					}
				}
			}
		}
		v, have := bs[pv]
		return have && contained(v, f)
	case map[string]J:
		fm, ok := f.(map[string]J)
		if !ok {
			return false
		}
		for k, v := range pv {
			if isVar(k) {
				found := false
				for fk, fv := range fm {
					if fits(k, bs, fk) && fits(v, bs, fv) {
						found = true
						break
					}
				}
				if !found {
					return false
				}
				continue
			}
			w, have := fm[k]
			if !have {
				if s, is := v.(string); is && isOpt(s) {
					continue
				}
				return false
			}
			if !fits(v, bs, w) {
				return false
			}
		}
		return true
	case []J:
		fa, ok := f.([]J)
		if !ok {
			return false
		}
		used := make([]bool, len(fa))
		var rec func(i int) bool
		rec = func(i int) bool {
			if i == len(pv) {
				return true
			}
			if s, is := pv[i].(string); is && isOpt(s) {
				if rec(i + 1) { // an optional variable may be assigned to nothing
					return true
				}
			}
			for j := range fa {
				if !used[j] && fits(pv[i], bs, fa[j]) {
					used[j] = true
					if rec(i + 1) {
						return true
					}
					used[j] = false
				}
			}
			return false
		}
		return rec(0)
	default:
		return contained(p, f)
	}
}

// supported: at most one variable directly inside any array; a variable
// property name only as the sole key of its map.
func supported(p J) bool {
	switch pv := p.(type) {
	case map[string]J:
		for k, v := range pv {
			if isVar(k) && len(pv) != 1 {
				return false
			}
			if !supported(v) {
				return false
			}
		}
	case []J:
		n := 0
		for _, x := range pv {
			if s, is := x.(string); is && isVar(s) {
				n++
			}
			if !supported(x) {
				return false
			}
		}
		return n <= 1
	}
	return true
}

func varsOf(p J, acc map[string]int) {
	switch pv := p.(type) {
	case string:
		if isVar(pv) {
			acc[pv]++
		}
	case map[string]J:
		for k, v := range pv {
			if isVar(k) {
				acc[k]++
			}
			varsOf(v, acc)
		}
	case []J:
		for _, x := range pv {
			varsOf(x, acc)
		}
	}
}

func subst(p J, s map[string]J) J {
	switch pv := p.(type) {
	case string:
		if v, ok := s[pv]; ok {
			return v
		}
		return pv
	case map[string]J:
		m := map[string]J{}
		for k, v := range pv {
			m[k] = subst(v, s)
		}
		return m
	case []J:
		a := make([]J, len(pv))
		for i, x := range pv {
			a[i] = subst(x, s)
		}
		return a
	}
	return p
}

// embeds: pattern p under assignment s is embedded in m: constants and
// structure as in `contained`, but a variable position holds exactly the
// message value found there.
func embeds(p J, s map[string]J, m J) bool {
	switch pv := p.(type) {
	case string:
		if isAnon(pv) {
			return true // the anonymous variable stands for any value and binds nothing
		}
		if v, ok := s[pv]; ok {
			return js(v) == js(m)
		}
		if isVar(pv) {
			return false // an unbound variable at a position that exists: the match would have bound it
		}
		mv, ok := m.(string)
		return ok && mv == pv
	case map[string]J:
		mm, ok := m.(map[string]J)
		if !ok {
			return false
		}
		for k, v := range pv {
			if isAnon(k) {
				// the anonymous property variable: some property of the message fits
				found := false
				for _, w := range mm {
					if embeds(v, s, w) {
						found = true
					}
				}
				if !found {
					return false
				}
				continue
			}
			if isVar(k) {
				// a property variable: it stands for one key of the message map
				kv, bound := s[k]
				ks, isStr := kv.(string)
				if !bound || !isStr {
					return false
				}
				w, have := mm[ks]
				if !have || !embeds(v, s, w) {
					return false
				}
				continue
			}
			w, have := mm[k]
			if !have {
				// an optional variable whose property is absent stays unbound
				if ov, is := v.(string); is && isOpt(ov) {
					if _, bound := s[ov]; !bound {
						continue
					}
				}
				return false
			}
			if !embeds(v, s, w) {
				return false
			}
		}
		return true
	case []J:
		ma, ok := m.([]J)
		if !ok {
			return false
		}
		used := make([]bool, len(ma))
		var rec func(i int) bool
		rec = func(i int) bool {
			if i == len(pv) {
				return true
			}
			for j := range ma {
				if !used[j] && embeds(pv[i], s, ma[j]) {
					used[j] = true
					if rec(i + 1) {
						return true
					}
					used[j] = false
				}
			}
			return false
		}
		return rec(0)
	}
	return contained(p, m)
}

func subvalues(x J, acc map[string]J) {
	acc[js(x)] = x
	switch v := x.(type) {
	case map[string]J:
		for k, w := range v {
			acc[js(k)] = k // a key can be the value of a property variable
			subvalues(w, acc)
		}
	case []J:
		for _, w := range v {
			subvalues(w, acc)
		}
	}
}

type stats struct {
	Property    string   `json:"property"`
	Evaluations int      `json:"evaluations"`
	Nontrivial  int      `json:"distinct_nontrivial"`
	Patterns    int      `json:"patterns"`
	Messages    int      `json:"messages"`
	Failures    []string `json:"failures"`
	Samples     []string `json:"samples"`
	Bound       string   `json:"bound"`
}

func emit(st *stats) {
	b, _ := json.Marshal(st)
	fmt.Println("BOUNDED-RESULT " + string(b))
	if f := os.Getenv("VERIF_BOUNDED_OUT"); f != "" {
		os.WriteFile(f, b, 0o644)
	}
}

// mergeShards runs f on interleaved shards of the pattern space, one per core, and adds the tallies up.
func mergeShards(st *stats, patterns []J, f func([]J) *stats) {
	n := runtime.NumCPU()
	if n > len(patterns) {
		n = len(patterns)
	}
	if n < 1 {
		n = 1
	}
	parts := make([][]J, n)
	for i, p := range patterns {
		parts[i%n] = append(parts[i%n], p)
	}
	res := make([]*stats, n)
	var wg sync.WaitGroup
	for i := range parts {
		wg.Add(1)
		go func(i int) {
			defer wg.Done()
			res[i] = f(parts[i])
		}(i)
	}
	wg.Wait()
	for _, r := range res {
		st.Evaluations += r.Evaluations
		st.Nontrivial += r.Nontrivial
		for _, x := range r.Failures {
			if len(st.Failures) < 5 {
				st.Failures = append(st.Failures, x)
			}
		}
		for _, x := range r.Samples {
			if len(st.Samples) < 3 {
				st.Samples = append(st.Samples, x)
			}
		}
	}
}

func thorough() bool { return os.Getenv("VERIF_TIER") == "thorough" }

// TestBoundedC01Fits: every returned binding set makes the pattern fit the message.
func TestBoundedC01Fits(t *testing.T) {
	st := &stats{Property: "C01"}
	depth := 1
	if thorough() {
		depth = 2
	}
	pleaves := []J{1.0, "x", true, nil, "?x", "?y", "?", "??o", "?<n"}
	mleaves := []J{1.0, 2.0, "x", true, nil}
	var patterns []J
	for _, p := range valuesD(depth, pleaves, 2, true) {
		if supported(p) {
			patterns = append(patterns, p)
		}
	}
	// nested patterns: one more level around the depth-1 patterns, restricted leaves
	if !thorough() {
		for _, p := range values(2, []J{1.0, "?x", "??o", "?"}, 2) {
			if supported(p) {
				patterns = append(patterns, p)
			}
		}
	}
	messages := values(2, mleaves[:3], 2)
	if thorough() {
		messages = values(2, mleaves, 2)
	}
	inits := []Bindings{{}, {"?x": 1.0}, {"?x": map[string]J{"a": 1.0}}, {"?<n": 2.0}, {"?<n": 2.0, "?n": 1.0}, {"?y": "x", "??o": 2.0}}
	st.Patterns, st.Messages = len(patterns), len(messages)
	if os.Getenv("VERIF_COUNT_ONLY") != "" {
		fmt.Printf("COUNT C01 patterns=%d messages=%d inits=%d\n", len(patterns), len(messages), len(inits))
		return
	}
	st.Bound = fmt.Sprintf("patterns: depth<=%d over leaves %s (+depth 2 over the leaves [1,\"?x\",\"??o\",\"?\"] in quick), supported fragment; messages: depth<=2 over keys {a,b}, arrays<=2; %d initial binding sets", depth, js(pleaves), len(inits))
	// the pattern space is sharded over the cores; every shard keeps its own tallies
	shard := func(ps []J) *stats {
		st := &stats{}
		seen := map[string]bool{}
		for _, p := range ps {
			for _, m := range messages {
				for _, in := range inits {
					bss, err := Match(p, m, in.Copy())
					st.Evaluations++
					if err != nil {
						continue
					}
					for _, bs := range bss {
						key := js(p) + "|" + js(bs)
						if !seen[key] {
							seen[key] = true
							st.Nontrivial++
						}
						// extension of the given bindings
						for k, v := range in {
							if w, have := bs[k]; !have || js(w) != js(v) {
								if len(st.Failures) < 5 {
									st.Failures = append(st.Failures, fmt.Sprintf("given binding %s changed: pattern %s message %s given %s result %s", k, js(p), js(m), js(in), js(bs)))
								}
							}
						}
						if !fits(p, bs, m) {
							if len(st.Failures) < 5 {
								st.Failures = append(st.Failures, fmt.Sprintf("result does not fit: pattern %s message %s given %s result %s", js(p), js(m), js(in), js(bs)))
							}
						} else if len(st.Samples) < 3 && len(bs) > len(in) {
							st.Samples = append(st.Samples, fmt.Sprintf("pattern %s message %s given %s -> %s fits", js(p), js(m), js(in), js(bs)))
						}
					}
				}
			}
		}
		return st
	}
	mergeShards(st, patterns, shard)
	// property variables (a variable as the sole key of a map), unbound and pre-bound to a key
	var pv []J
	for _, k := range []string{"?x", "?y", "?"} {
		for _, v := range []J{1.0, "x", "?y", "?x", "?", map[string]J{"a": "?y"}, []J{"?y"}} {
			pv = append(pv, map[string]J{k: v}, map[string]J{"a": map[string]J{k: v}}, []J{map[string]J{k: v}})
		}
	}
	mainInits := inits
	inits = []Bindings{{}, {"?x": "a"}, {"?x": "b"}, {"?y": "a"}, {"?x": "a", "?y": 1.0}, {"?x": 1.0}}
	st2 := &stats{}
	mergeShards(st2, pv, shard)
	inits = mainInits
	st.Patterns += len(pv)
	st.Evaluations += st2.Evaluations
	st.Nontrivial += st2.Nontrivial
	st.Failures = append(st.Failures, st2.Failures...)
	st.Bound += fmt.Sprintf("; plus %d property-variable patterns ({?k: v} at the top, under a key, in an array) with the variable unbound or pre-bound to a key (6 initial binding sets)", len(pv))
	emit(st)
	if len(st.Failures) > 0 {
		t.Fatalf("C01 bounded: %d failures, first: %s", len(st.Failures), st.Failures[0])
	}
}

// TestBoundedC02Embeddings: for plain patterns (variables ?x ?y, each at most
// once, nothing pre-bound) the returned sets are exactly the embeddings
// { s | pattern[s] is contained in the message }, s ranging over the
// sub-values of the message; extra keys and elements never prevent a match.
func TestBoundedC02Embeddings(t *testing.T) {
	st := &stats{Property: "C02"}
	pleaves := []J{1.0, "x", "?x", "?y"}
	mleaves := []J{1.0, 2.0, "x"}
	var patterns []J
	for _, p := range values(2, pleaves, 2) {
		if !supported(p) {
			continue
		}
		vs := map[string]int{}
		varsOf(p, vs)
		ok := true
		for _, n := range vs {
			if n > 1 {
				ok = false
			}
		}
		if ok {
			patterns = append(patterns, p)
		}
	}
	// property variables: a single variable key, at the top and one level down
	for _, v := range []J{1.0, "x", "?y", map[string]J{"a": "?y"}, map[string]J{"a": 1.0}, []J{"?y"}} {
		patterns = append(patterns, map[string]J{"?x": v}, map[string]J{"a": map[string]J{"?x": v}})
	}
	// the anonymous variable: as a value, as an array member, and as the property variable
	for _, v := range []J{1.0, "?y", map[string]J{"a": "?y"}, []J{"?y"}} {
		patterns = append(patterns, map[string]J{"?": v}, map[string]J{"a": map[string]J{"?": v}})
	}
	// optional variables (as property values)
	patterns = append(patterns, map[string]J{"a": "??o"}, map[string]J{"a": "??o", "b": "?x"}, map[string]J{"a": "??o", "b": 1.0}, map[string]J{"a": map[string]J{"b": "??o"}},
		[]J{map[string]J{"a": "??o"}}, map[string]J{"a": "??o", "b": "??p"})
	patterns = append(patterns, map[string]J{"a": "?"}, map[string]J{"a": "?", "b": "?x"}, []J{"?"}, []J{1.0, "?"}, map[string]J{"a": []J{"?"}}, map[string]J{"?x": "?"})
	marr := 2
	if thorough() {
		marr = 3
	}
	messages := values(2, mleaves, marr)
	st.Patterns, st.Messages = len(patterns), len(messages)
	st.Bound = fmt.Sprintf("plain patterns: depth<=2 over leaves %s, keys {a,b}, arrays<=2, each variable at most once, plus property-variable, anonymous-variable and optional-variable patterns; messages: depth<=2 over %s, arrays<=%d (sets); exhaustive over all pairs", js(pleaves), js(mleaves), marr)
	shard := func(ps []J) *stats {
		st := &stats{}
		for _, p := range ps {
			vs := map[string]int{}
			varsOf(p, vs)
			var names []string
			for v := range vs {
				if !isAnon(v) {
					names = append(names, v)
				}
			}
			sort.Strings(names)
			for _, m := range messages {
				// a planted value under an array variable must differ from that array's constant members: handled by
				// the oracle itself (containment needs distinct elements)
				cands := map[string]J{}
				subvalues(m, cands)
				var keys []string
				for k := range cands {
					keys = append(keys, k)
				}
				sort.Strings(keys)
				want := map[string]bool{}
				var rec func(i int, s map[string]J)
				rec = func(i int, s map[string]J) {
					if i == len(names) {
						if embeds(p, s, m) {
							b := Bindings{}
							for k, v := range s {
								b[k] = v
							}
							want[js(b)] = true
						}
						return
					}
					if isOpt(names[i]) {
						rec(i+1, s) // unbound
					}
					for _, k := range keys {
						s[names[i]] = cands[k]
						rec(i+1, s)
					}
					delete(s, names[i])
				}
				rec(0, map[string]J{})
				bss, err := Match(p, m, Bindings{})
				st.Evaluations++
				if err != nil {
					continue
				}
				got := map[string]bool{}
				for _, bs := range bss {
					got[js(bs)] = true
				}
				if len(want) > 0 {
					st.Nontrivial++
				}
				bad := ""
				for w := range want {
					if !got[w] {
						bad = "embedding not returned: " + w
					}
				}
				for g := range got {
					if !want[g] {
						bad = "returned set is not an embedding: " + g
					}
				}
				if bad != "" && len(st.Failures) < 5 {
					st.Failures = append(st.Failures, fmt.Sprintf("%s; pattern %s message %s got %v", bad, js(p), js(m), keysOf(got)))
				}
				if bad == "" && len(st.Samples) < 3 && len(want) > 1 {
					st.Samples = append(st.Samples, fmt.Sprintf("pattern %s message %s -> exactly %v", js(p), js(m), keysOf(want)))
				}
			}
		}
		return st
	}
	mergeShards(st, patterns, shard)
	// null: as a constant in patterns and as a value in messages (a present property whose value is null is present)
	var np []J
	for _, p := range values(2, []J{nil, "?x"}, 2) {
		vs := map[string]int{}
		varsOf(p, vs)
		if supported(p) && vs["?x"] <= 1 {
			np = append(np, p)
		}
	}
	mainMessages := messages
	messages = values(2, []J{1.0, nil}, marr)
	st2 := &stats{}
	mergeShards(st2, np, shard)
	st.Patterns += len(np)
	st.Evaluations += st2.Evaluations
	st.Nontrivial += st2.Nontrivial
	st.Failures = append(st.Failures, st2.Failures...)
	st.Bound += fmt.Sprintf("; plus %d patterns over the leaves [null,\"?x\"] against %d messages over [1,null]", len(np), len(messages))
	messages = mainMessages
	emit(st)
	if len(st.Failures) > 0 {
		t.Fatalf("C02 bounded: %d failures, first: %s", len(st.Failures), st.Failures[0])
	}
}

func keysOf(m map[string]bool) []string {
	var out []string
	for k := range m {
		out = append(out, k)
	}
	sort.Strings(out)
	return out
}
