package sio

// BOUNDED stand-in for the part of C14 that no contract within the verifier's
// reach expresses: the breadth-first re-injection of emitted messages by
// (*Crew).ProcessMsg. The function hands a closure that mutates the queue to
// Walked.DoEmitted; modular reasoning about it needs higher-order contracts.
//
// The real ProcessMsg is run on EVERY configuration of a stated finite space
// and compared with a reference model written from the property text:
// "a message is presented exactly once to each machine it is addressed to and
// to no other; messages emitted during processing are fed back to the crew,
// each processed exactly once, breadth-first, keeping each machine's emission
// order; every emitted message is reported to the host exactly once".
//
// Space: machines a, b (emitters) and c (recorder); a token that decreases
// with every hop (so every history is finite); for each (emitter, token) an
// emission list of length <= 2 over the targets {a, b, c, "*" (unrouted),
// z (nobody)}; the submitted message goes to a or to everybody.

import (
	"context"
	"encoding/json"
	"fmt"
	"os"
	"runtime"
	"sort"
	"strings"
	"sync"
	"testing"

	"github.com/Comcast/sheens/core"
	"github.com/Comcast/sheens/crew"
	"github.com/Comcast/sheens/match"
)

type bEmission struct{ to string } // "" = unrouted

type bTable map[string]map[int][]bEmission // machine -> token -> emissions

func bMsg(to string, tok int, p string) map[string]interface{} {
	m := map[string]interface{}{"tok": float64(tok), "p": p}
	if to != "" {
		m["to"] = to
	}
	return m
}

// bSpec: one message branch {"tok":"?t","p":"?p"}; the (native) action logs the
// path of the message it was presented with and emits what the table says.
func bSpec(tab bTable) *core.Spec {
	act := &core.FuncAction{F: func(ctx context.Context, bs match.Bindings, props core.StepProps) (*core.Execution, error) {
		mid, _ := props["mid"].(string)
		tok := int(bs["?t"].(float64))
		p := bs["?p"].(string)
		out := bs.Copy()
		delete(out, "?t")
		delete(out, "?p")
		var log []interface{}
		if l, ok := out["log"].([]interface{}); ok {
			log = append(log, l...)
		}
		out["log"] = append(log, fmt.Sprintf("%d|%s", tok, p))
		exe := core.NewExecution(out)
		if tok > 0 {
			for i, e := range tab[mid][tok] {
				exe.AddEmitted(bMsg(e.to, tok-1, fmt.Sprintf("%s/%s%d", p, mid, i)))
			}
		}
		return exe, nil
	}}
	s := &core.Spec{Name: "bounded", PatternSyntax: "none", Nodes: map[string]*core.Node{
		"start": {Branches: &core.Branches{Type: "message", Branches: []*core.Branch{{Pattern: map[string]interface{}{"tok": "?t", "p": "?p"}, Target: "do"}}}},
		"do":    {Action: act, Branches: &core.Branches{Type: "bindings", Branches: []*core.Branch{{Target: "start"}}}},
	}}
	if err := s.Compile(context.Background(), nil, true); err != nil {
		panic(err)
	}
	return s
}

type bModel struct {
	received map[string][]string // machine -> paths (as "tok|p"), in some order
	batches  []string            // one entry per action that emitted: the paths of its emissions, in order
}

func (m *bModel) deliver(tab bTable, machines []string, to string, tok int, p string) {
	var rcpts []string
	if to == "" {
		rcpts = machines
	} else {
		for _, x := range machines {
			if x == to {
				rcpts = []string{x}
			}
		}
	}
	for _, r := range rcpts {
		m.received[r] = append(m.received[r], fmt.Sprintf("%d|%s", tok, p))
		if tok > 0 && len(tab[r][tok]) > 0 {
			var ps []string
			for i := range tab[r][tok] {
				ps = append(ps, fmt.Sprintf("%s/%s%d", p, r, i))
			}
			m.batches = append(m.batches, strings.Join(ps, ","))
			for i, e := range tab[r][tok] {
				m.deliver(tab, machines, e.to, tok-1, ps[i])
			}
		}
	}
}

func sortedCopy(xs []string) []string {
	out := append([]string{}, xs...)
	sort.Strings(out)
	return out
}

// bRun runs the real crew on one configuration and returns a description of the first disagreement ("" if none).
func bRun(tab bTable, initTo string) string {
	ctx, cancel := context.WithCancel(context.Background())
	defer cancel()
	c, err := NewCrew(ctx, &CrewConf{Ctl: core.DefaultControl}, NewStdio(false))
	if err != nil {
		return "NewCrew: " + err.Error()
	}
	c.Verbose = false
	machines := []string{"a", "b", "c"}
	spec := bSpec(tab)
	for _, mid := range machines {
		c.Machines[mid] = &crew.Machine{Id: mid, Specter: spec, State: DefaultState(nil)}
	}
	r, err := c.ProcessMsg(ctx, bMsg(initTo, 2, "i"))
	if err != nil {
		return "ProcessMsg: " + err.Error()
	}
	model := &bModel{received: map[string][]string{}}
	model.deliver(tab, machines, initTo, 2, "i")
	for _, mid := range machines {
		var got []string
		if l, ok := c.Machines[mid].State.Bs["log"].([]interface{}); ok {
			for _, x := range l {
				got = append(got, x.(string))
			}
		}
		// exactly once, to the addressed machines and to no other
		if fmt.Sprint(sortedCopy(got)) != fmt.Sprint(sortedCopy(model.received[mid])) {
			return fmt.Sprintf("machine %s was presented with %v, the model says %v", mid, got, model.received[mid])
		}
		// breadth-first: the token (= remaining depth) never increases along a machine's log
		last := 99
		seen := map[string]int{}
		for _, e := range got {
			var tok int
			var p string
			fmt.Sscanf(e, "%d|%s", &tok, &p)
			if tok > last {
				return fmt.Sprintf("machine %s saw a deeper message before a shallower one: %v", mid, got)
			}
			last = tok
			// emission order: siblings (same action, ...X0 before ...X1) arrive in order
			if i := strings.LastIndex(p, "/"); i >= 0 && len(p) > 0 {
				parent, seq := p[:len(p)-1], int(p[len(p)-1]-'0')
				if prev, ok := seen[parent]; ok && prev > seq {
					return fmt.Sprintf("machine %s saw emissions of one action out of order: %v", mid, got)
				}
				seen[parent] = seq
			}
		}
	}
	// every emitted message is reported to the host exactly once, batch by batch, in emission order
	var got []string
	for _, batch := range r.Emitted {
		var ps []string
		for _, msg := range batch {
			m, _ := msg.(map[string]interface{})
			ps = append(ps, fmt.Sprint(m["p"]))
		}
		got = append(got, strings.Join(ps, ","))
	}
	if fmt.Sprint(sortedCopy(got)) != fmt.Sprint(sortedCopy(model.batches)) {
		return fmt.Sprintf("the host was told %v, the model says %v", got, model.batches)
	}
	return ""
}

func TestBoundedC14Requeue(t *testing.T) {
	targets := []string{"b", "c", "", "z"}
	if os.Getenv("VERIF_TIER") == "thorough" {
		targets = []string{"a", "b", "c", "", "z"}
	}
	var lists [][]bEmission
	lists = append(lists, nil)
	for _, x := range targets {
		lists = append(lists, []bEmission{{x}})
		for _, y := range targets {
			lists = append(lists, []bEmission{{x}, {y}})
		}
	}
	type cfg struct {
		tab  bTable
		init string
		desc string
	}
	var cfgs []cfg
	name := func(l []bEmission) string {
		var s []string
		for _, e := range l {
			if e.to == "" {
				s = append(s, "*")
			} else {
				s = append(s, e.to)
			}
		}
		return "[" + strings.Join(s, " ") + "]"
	}
	for _, a2 := range lists {
		for _, a1 := range lists {
			for _, b1 := range lists {
				tab := bTable{"a": {2: a2, 1: a1}, "b": {2: a2, 1: b1}}
				for _, init := range []string{"a", ""} {
					cfgs = append(cfgs, cfg{tab, init, fmt.Sprintf("a,b@2 emit %s; a@1 emits %s; b@1 emits %s; submitted to %q", name(a2), name(a1), name(b1), init)})
				}
			}
		}
	}
	n := runtime.NumCPU()
	fails := make([][]string, n)
	var wg sync.WaitGroup
	for w := 0; w < n; w++ {
		wg.Add(1)
		go func(w int) {
			defer wg.Done()
			for i := w; i < len(cfgs); i += n {
				if d := bRun(cfgs[i].tab, cfgs[i].init); d != "" && len(fails[w]) < 3 {
					fails[w] = append(fails[w], cfgs[i].desc+": "+d)
				}
			}
		}(w)
	}
	wg.Wait()
	var all []string
	for _, f := range fails {
		all = append(all, f...)
	}
	sort.Strings(all)
	if len(all) > 5 {
		all = all[:5]
	}
	st := map[string]interface{}{"property": "C14", "evaluations": len(cfgs), "distinct_nontrivial": len(cfgs), "failures": all,
		"bound": fmt.Sprintf("machines a,b (emitters) and c (recorder); hop budget 2; per (emitter, budget) an emission list of length <= 2 over targets %v (\"\" = unrouted, z = nobody): %d lists, %d configurations x 2 submissions; native actions", targets, len(lists), len(cfgs)/2),
		"samples": []string{"every configuration: per-machine delivery multiset = model, hop budget non-increasing per log (breadth-first), sibling emissions in order, reported batches = model"}}
	b, _ := json.Marshal(st)
	fmt.Println("BOUNDED-RESULT " + string(b))
	if f := os.Getenv("VERIF_BOUNDED_OUT"); f != "" {
		os.WriteFile(f, b, 0o644)
	}
	if len(all) > 0 {
		t.Fatalf("C14 bounded: %d disagreements, first: %s", len(all), all[0])
	}
}
