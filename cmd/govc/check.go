package main

import (
	"encoding/json"
	"flag"
	"fmt"
	"os"
	"path/filepath"
	"regexp"
	"sort"
	"strconv"
	"strings"
	"time"

	"verif/internal/vc"
)

// profileOf: the action profile a property is proved under (DESIGN 2.2).
var profileOf = map[string]string{"C06": "pure", "C10": "pure", "C12": "pure", "C18": "pure", "C04": "pure", "C05": "pure", "C08": "pure", "C14": "pure", "C15": "pure", "C16": "pure"}

// boundedOf: bounded stand-ins (labelled bounded, never counted as proved) that
// run the real code on every input of a stated finite space.
var boundedOf = map[string][2]string{
	"C01": {"match", "^TestBoundedC01Fits$"},
	"C02": {"match", "^TestBoundedC02Embeddings$"},
	// C03, relational clause (same result on re-evaluation): on the C02 space the result SET of the real Match equals a
	// deterministic oracle at every evaluation, so an order-dependent loss or gain of matches is seen; an order
	// dependence that keeps the set (or hits only inputs outside the space) is not
	"C03": {"match", "^TestBoundedC02Embeddings$"},
	"C14": {"sio", "^TestBoundedC14Requeue$"},
}

type knownFinding struct {
	Property   string `json:"property"`
	Obligation string `json:"obligation"`
	What       string `json:"what"`
	Witness    string `json:"witness,omitempty"`
	WitnessPkg string `json:"witness_pkg,omitempty"`
	WitnessRun string `json:"witness_run,omitempty"`
	ReplayOnly bool   `json:"replay_only,omitempty"`
}

type knownFile struct {
	Findings []knownFinding    `json:"findings"`
	Fixed    []json.RawMessage `json:"fixed"`
}

func loadKnown(path string) *knownFile {
	kf := &knownFile{}
	b, err := os.ReadFile(path)
	if err != nil {
		return kf
	}
	if err := json.Unmarshal(b, kf); err != nil {
		fmt.Fprintln(os.Stderr, "known_findings.json:", err)
	}
	return kf
}

func contractFiles(repo string) []string {
	var out []string
	filepath.Walk(repo, func(p string, info os.FileInfo, err error) error {
		if err != nil {
			return nil
		}
		if info.IsDir() && (info.Name() == ".git" || info.Name() == "node_modules") {
			return filepath.SkipDir
		}
		if info.Name() == "verif_contracts.go" {
			out = append(out, p)
		}
		return nil
	})
	sort.Strings(out)
	return out
}

func hasProp(ps []string, p string) bool {
	for _, q := range ps {
		if q == p {
			return true
		}
	}
	return false
}

// unitsFor finds the functions under contract that carry a clause for prop.
func unitsFor(cs *vc.ContractSet, prop string) []string {
	var out []string
	for k, fc := range cs.Funcs {
		if fc.Kind != "func" || fc.Trusted {
			continue
		}
		if fc.Mentions(prop) {
			out = append(out, k)
		}
	}
	sort.Strings(out)
	return out
}

func cmdCheck(args []string) int {
	fs := flag.NewFlagSet("check", flag.ExitOnError)
	prop := fs.String("p", "", "property id")
	tier := fs.String("tier", "quick", "quick | thorough")
	repo := fs.String("repo", "/repo", "repository")
	verif := fs.String("verif", "/verif", "verif directory")
	fs.Parse(args)
	if *prop == "" {
		fmt.Fprintln(os.Stderr, "check: -p required")
		return 2
	}
	vc.ExternSpec = filepath.Join(*verif, "contracts", "extern.spec")
	vc.BindCacheFile = filepath.Join(*verif, "contracts", "bindings.cache.json")
	if t := os.Getenv("VERIF_TIER"); t == "quick" || t == "thorough" {
		*tier = t
	}
	seed := 1
	if s := os.Getenv("VERIF_SEED"); s != "" {
		if n, err := strconv.Atoi(s); err == nil {
			seed = n
		}
	}
	t0 := time.Now()
	// 1. contracts → units → packages
	cs := vc.NewContractSet()
	for _, f := range contractFiles(*repo) {
		rel, _ := filepath.Rel(*repo, filepath.Dir(f))
		if err := cs.ParseFile(f, rel); err != nil {
			fmt.Fprintln(os.Stderr, "contract error:", err)
			return 2
		}
	}
	known := loadKnown(filepath.Join(*verif, "known_findings.json"))
	for _, kf := range known.Findings {
		vc.KnownFailing[kf.Obligation] = kf.Property
	}
	keys := unitsFor(cs, *prop)
	_, hasBounded := boundedOf[*prop]
	if len(keys) == 0 && !hasBounded {
		fmt.Fprintf(os.Stderr, "no function under contract carries a clause for %s\n", *prop)
		return 2
	}
	var P *vc.Program
	if len(keys) > 0 {
		var err error
		loadKeys := append([]string{}, keys...)
		for _, jf := range cs.JSONForms {
			if hasProp(jf.Props, *prop) {
				loadKeys = append(loadKeys, jf.Pkg+"."+jf.Type) // the package that declares the type is loaded too
			}
		}
		P, err = vc.Load(*repo, pkgsOf(loadKeys))
		if err != nil {
			fmt.Fprintln(os.Stderr, err)
			return 2
		}
	}
	loadS := time.Since(t0).Seconds()
	profile := profileOf[*prop]
	if profile == "" {
		profile = "any"
	}
	timeout := 40
	if *tier == "thorough" {
		timeout = 120
	}
	outDir := filepath.Join(*verif, "out", "smt", *prop)
	os.RemoveAll(outDir)
	var all []*vc.Oblig
	var units []*vc.Unit
	notes := map[string]bool{}
	trusted := map[string]bool{}
	inlined := map[string]bool{}
	done := map[string]bool{}
	work := append([]string{}, keys...)
	var encErrs [][2]string
	for len(work) > 0 {
		k := work[0]
		work = work[1:]
		if done[k] {
			continue
		}
		done[k] = true
		u, err := vc.BuildUnit(P, k, profile, *prop)
		if err != nil {
			// the contract no longer binds to the code (function removed or renamed, a
			// name in a let/writes clause gone): the property is not decided any more;
			// reported as a failed binding obligation, never silently skipped
			fmt.Fprintln(os.Stderr, "encoding error:", err)
			encErrs = append(encErrs, [2]string{k, err.Error()})
			continue
		}
		units = append(units, u)
		for _, n := range u.Notes {
			notes[n] = true
		}
		for _, n := range u.Trusted {
			trusted[n] = true
		}
		for _, n := range u.Inlined {
			inlined[n] = true
		}
		// every obligation of every function in the cone is discharged: callers
		// assume all clauses of a callee's contract, so all of them must hold
		for _, o := range u.Obligs {
			if owner, bad := vc.KnownFailing[baseObligation(o.Name)]; bad && owner != *prop {
				continue // a known finding of another property: not assumed anywhere, reported by its own check
			}
			all = append(all, o)
		}
		// contracts of callees that were used modularly must be proved in this run too
		for _, c := range u.Callees {
			if !done[c] {
				work = append(work, c)
			}
		}
	}
	if P != nil {
		for _, af := range P.Contracts.AtomicFields {
			if hasProp(af.Props, *prop) {
				u := vc.AtomicFieldUnit(P, af)
				units = append(units, u)
				all = append(all, u.Obligs...)
			}
		}
	}
	if P != nil {
		for _, jf := range P.Contracts.JSONForms {
			if hasProp(jf.Props, *prop) {
				u := vc.JSONFormUnit(P, jf)
				units = append(units, u)
				all = append(all, u.Obligs...)
			}
		}
	}
	genS := time.Since(t0).Seconds() - loadS
	knownSet := map[string]bool{}
	for _, o := range all {
		if _, bad := vc.KnownFailing[baseObligation(o.Name)]; bad {
			knownSet[o.Name] = true
		}
	}
	res := vc.Solve(all, vc.SolveOpts{TimeoutS: timeout, Seed: seed, OutDir: outDir, Thorough: *tier == "thorough", Known: knownSet})
	retried := 0
	// second chance: an obligation that no solver refuted (only timeouts/unknowns) is tried again,
	// alone on the machine, with three times the budget - a loaded machine must not turn into an alarm
	var again []*vc.Oblig
	idx := map[*vc.Oblig]int{}
	for i, r := range res {
		if r.Status != "failed" || r.O.Kind == "vacuity" || r.O.Kind == "cover" || knownSet[r.O.Name] {
			continue
		}
		refuted := false
		for _, a := range r.Answers {
			if a.Result == "sat" || a.Result == "trivially-invalid" || strings.HasPrefix(a.Result, "error") {
				refuted = true
			}
		}
		if !refuted && len(again) < 24 {
			again = append(again, r.O)
			idx[r.O] = i
		}
	}
	if len(again) > 0 {
		res2 := vc.Solve(again, vc.SolveOpts{TimeoutS: timeout * 3, Seed: seed + 1, OutDir: outDir, Workers: 4, Thorough: *tier == "thorough", Known: knownSet})
		for _, r2 := range res2 {
			old := res[idx[r2.O]]
			r2.Answers = append(old.Answers, r2.Answers...)
			if r2.Status == "proved" {
				retried++
			}
			res[idx[r2.O]] = r2
		}
	}
	isKnown := func(name string) *knownFinding {
		for i := range known.Findings {
			if known.Findings[i].Property == *prop && known.Findings[i].Obligation == baseObligation(name) {
				return &known.Findings[i]
			}
		}
		return nil
	}
	var nObl, nProved, nVac, nKnown int
	_ = retried
	solverCount := map[string]int{}
	solverSecs := 0.0
	var failed []*vc.Result
	var samples []interface{}
	var slowest *vc.Result
	coverCount := map[string]int{}
	var deadReturns []string
	for _, r := range res {
		for _, a := range r.Answers {
			solverSecs += a.Secs
		}
		if r.O.Kind == "cover" {
			ans := "undetermined"
			if len(r.Answers) > 0 {
				switch r.Answers[0].Result {
				case "sat":
					ans = "reachable"
				case "unsat":
					ans = "unreachable"
				}
			}
			coverCount[ans]++
			if ans == "unreachable" {
				deadReturns = append(deadReturns, r.O.Name+" ("+r.O.Pos+")")
			}
			continue
		}
		if r.O.Kind == "vacuity" {
			nVac++
			if r.Status == "vacuous" || r.Status == "failed" {
				failed = append(failed, r)
			}
			continue
		}
		nObl++
		switch r.Status {
		case "proved":
			nProved++
			solverCount[r.Solver]++
			if slowest == nil || r.Secs > slowest.Secs {
				slowest = r
			}
			if (len(samples) < 5 && hasProp(r.O.Props, *prop) && (r.O.Kind == "post" || r.O.Kind == "inv-step")) || len(samples) < 1 {
				samples = append(samples, map[string]interface{}{"obligation": r.O.Name, "kind": r.O.Kind, "clause": r.O.Text, "source": r.O.Pos,
					"hypothesis": trunc(r.O.Hyp, 300), "goal": trunc(r.O.Goal, 600), "solver": r.Solver, "seconds": r.Secs, "smt_file": r.File})
			}
		default:
			if kf := isKnown(r.O.Name); kf != nil {
				nKnown++
				nObl-- // reported as a known finding, not counted among the obligations claimed
				fmt.Printf("KNOWN-FINDING: property=%s %s: %s\n", *prop, r.O.Name, kf.What)
				continue
			}
			failed = append(failed, r)
		}
	}
	violations := 0
	replayDir := filepath.Join(*verif, "out", "replay")
	os.MkdirAll(replayDir, 0o755)
	widx := loadWitnessIndex(filepath.Join(*verif, "witnesses", "index.json"))
	wcache := map[string][2]string{}
	for _, ee := range encErrs {
		violations++
		name := ee[0] + "#binding:unit"
		path := filepath.Join(replayDir, *prop+"-"+sanitize(name)+".json")
		rp := map[string]interface{}{"property": *prop, "obligation": name, "kind": "binding", "clause": ee[1], "reproduced": false,
			"note": "the contract of this function cannot be bound to the code any more, so its obligations cannot be generated; the property is undecided for this tree"}
		b, _ := json.MarshalIndent(rp, "", " ")
		os.WriteFile(path, b, 0o644)
		fmt.Printf("VIOLATION property=%s replay=%s obligation=%s no-failing-input-found\n", *prop, path, name)
	}
	for _, r := range failed {
		violations++
		path := filepath.Join(replayDir, *prop+"-"+sanitize(r.O.Name)+".json")
		rp := map[string]interface{}{"property": *prop, "obligation": r.O.Name, "kind": r.O.Kind, "clause": r.O.Text, "source": r.O.Pos,
			"status": r.Status, "solver_results": r.Answers, "smt_file": r.File, "reproduced": false,
			"note": "the verifier did not accept this obligation; no concrete failing input was derived (solver gave no usable model)"}
		suffix := " no-failing-input-found"
		// replay: run the concrete inputs recorded for this obligation against the real code
		for _, w := range widx {
			if !w.re.MatchString(r.O.Name) {
				continue
			}
			key := w.Pkg + " " + w.Run
			res, ok := wcache[key]
			if !ok {
				pass, out := runWitness(*verif, *repo, w.Pkg, w.Run)
				res = [2]string{fmt.Sprint(pass), out}
				wcache[key] = res
			}
			rp["replay_test"] = map[string]string{"package": w.Pkg, "run": w.Run, "files": filepath.Join(*verif, "witnesses", w.Pkg)}
			rp["replay_output"] = trunc(res[1], 4000)
			if res[0] == "false" && (strings.Contains(res[1], "[build failed]") || strings.Contains(res[1], "[setup failed]")) {
				// the recorded input does not compile against this tree: nothing was replayed
				rp["note"] = "the obligation failed; the recorded concrete input for it could not be built against this tree, so nothing was replayed"
				continue
			}
			if res[0] == "false" {
				rp["reproduced"] = true
				rp["note"] = "the obligation failed and the recorded concrete input for it fails against the real code (go test -overlay, nothing written to the repository)"
				suffix = ""
				break
			}
			rp["note"] = "the obligation failed; the recorded concrete input for it does not fail on this tree"
		}
		b, _ := json.MarshalIndent(rp, "", " ")
		os.WriteFile(path, b, 0o644)
		fmt.Printf("VIOLATION property=%s replay=%s obligation=%s%s\n", *prop, path, r.O.Name, suffix)
	}
	// known findings that exist only as replays (no contract expresses them): re-run their witnesses
	var replayNotes []string
	for _, kf := range known.Findings {
		if kf.Property != *prop || !kf.ReplayOnly || kf.WitnessPkg == "" {
			continue
		}
		pass, _ := runWitness(*verif, *repo, kf.WitnessPkg, kf.WitnessRun)
		if !pass {
			nKnown++
			fmt.Printf("KNOWN-FINDING: property=%s %s: %s\n", *prop, kf.Obligation, kf.What)
			replayNotes = append(replayNotes, kf.Obligation+": witness still fails on the real code")
		} else {
			fmt.Printf("note: known finding %s no longer reproduces on this tree (stale entry)\n", kf.Obligation)
			replayNotes = append(replayNotes, kf.Obligation+": witness passes on this tree (stale)")
		}
	}
	// repaired defects that no obligation expresses (a fatal stack overflow, say): their witnesses are replayed on every
	// run; a fixed entry suppresses nothing - if the witness fails again, that is a violation with a failing input
	for _, raw := range known.Fixed {
		var fx knownFinding
		if json.Unmarshal(raw, &fx) != nil || fx.Property != *prop || !fx.ReplayOnly || fx.WitnessPkg == "" {
			continue
		}
		pass, out := runWitness(*verif, *repo, fx.WitnessPkg, fx.WitnessRun)
		if pass {
			replayNotes = append(replayNotes, fx.Obligation+": witness of the repaired defect passes")
			continue
		}
		violations++
		path := filepath.Join(replayDir, *prop+"-"+sanitize(fx.Obligation)+".json")
		rp := map[string]interface{}{"property": *prop, "obligation": fx.Obligation, "kind": "replay of a repaired defect", "reproduced": true,
			"replay_test": map[string]string{"package": fx.WitnessPkg, "run": fx.WitnessRun, "files": filepath.Join(*verif, "witnesses", fx.WitnessPkg)}, "replay_output": trunc(out, 4000),
			"note": "the witness of a defect that was repaired fails again on this tree"}
		suffix := ""
		if strings.Contains(out, "[build failed]") || strings.Contains(out, "[setup failed]") {
			rp["reproduced"] = false
			rp["note"] = "the witness of a repaired defect could not be built against this tree; nothing was replayed"
			suffix = " no-failing-input-found"
		}
		rb, _ := json.MarshalIndent(rp, "", " ")
		os.WriteFile(path, rb, 0o644)
		fmt.Printf("VIOLATION property=%s replay=%s obligation=%s%s\n", *prop, path, fx.Obligation, suffix)
	}
	// bounded stand-in (if any)
	var boundedStats map[string]interface{}
	if b, ok := boundedOf[*prop]; ok {
		scratch, _ := os.MkdirTemp("", "govc-bounded")
		outf := filepath.Join(scratch, "result.json")
		pass, out := runOverlay(*verif, *repo, "bounded", b[0], b[1], []string{"VERIF_TIER=" + *tier, fmt.Sprintf("VERIF_SEED=%d", seed), "VERIF_BOUNDED_OUT=" + outf}, "3000s")
		if rb, err := os.ReadFile(outf); err == nil {
			json.Unmarshal(rb, &boundedStats)
		}
		os.RemoveAll(scratch)
		if boundedStats == nil {
			boundedStats = map[string]interface{}{"error": trunc(out, 2000)}
		}
		if !pass {
			violations++
			path := filepath.Join(replayDir, *prop+"-bounded.json")
			rp := map[string]interface{}{"property": *prop, "obligation": "bounded:" + b[1], "kind": "bounded stand-in on the real code", "reproduced": true,
				"failing_inputs": boundedStats["failures"], "replay_test": map[string]string{"package": b[0], "run": b[1], "files": filepath.Join(*verif, "bounded", b[0])}, "output": trunc(out, 4000)}
			suffix := ""
			if strings.Contains(out, "[build failed]") || strings.Contains(out, "[setup failed]") {
				// the stand-in drives an API that no longer compiles: nothing was run, the bounded part is undecided
				rp["reproduced"] = false
				rp["kind"] = "binding"
				rp["note"] = "the bounded stand-in could not be built against this tree (the functions it drives have changed); nothing was run"
				suffix = " no-failing-input-found"
			}
			rb, _ := json.MarshalIndent(rp, "", " ")
			os.WriteFile(path, rb, 0o644)
			fmt.Printf("VIOLATION property=%s replay=%s obligation=bounded:%s%s\n", *prop, path, b[1], suffix)
		}
	}
	wall := time.Since(t0).Seconds()
	// evidence
	var fnames []string
	for _, u := range units {
		fnames = append(fnames, u.Fn)
	}
	assumptions := []string{
		"T-ssa: golang.org/x/tools/go/ssa lowers the source faithfully; govc's SSA->SMT encoding is not itself verified (cross-checked by the must-fail corpus)",
		"A-int: Go integers are mathematical integers (no overflow); A-float: float64 is Real (no NaN/Inf/rounding); A-ascii: byte indexing of strings assumes ASCII",
		"Go runtime semantics of maps, slices, append and range as encoded in DESIGN.md 2.3/2.4",
		"profile=" + profile + " for dynamic action calls (DESIGN.md 2.2)",
	}
	for _, k := range sortedKeys(trusted) {
		assumptions = append(assumptions, "assumed contract (not proved here): "+k)
	}
	for _, k := range sortedKeys(notes) {
		assumptions = append(assumptions, "abstraction: "+k)
	}
	level := "proof"
	cov := map[string]interface{}{
		"obligations": nObl, "discharged": nProved, "checker_cmd": fmt.Sprintf("bin/govc check -p %s -tier %s", *prop, *tier),
		"trusted_base": sortedKeys(trusted), "samples": samples, "functions_under_contract": fnames, "inlined_callees": sortedKeys(inlined),
		"discharged_by_solver": solverCount, "solver_seconds_total": round2(solverSecs), "load_seconds": round2(loadS), "vcgen_seconds": round2(genS),
		"vacuity_checks": nVac, "known_findings_reported": nKnown, "profile": profile, "per_obligation_timeout_s": timeout,
		"explanation": "every obligation generated from /repo's current source for the functions listed (contract clauses tagged " + *prop + ", supporting loop invariants, call-site preconditions, generated safety conditions) was sent to z3 5.1.0 / z3 4.8.12 / cvc5 1.0; 'discharged' counts obligations a solver answered unsat for",
	}
	if len(coverCount) > 0 {
		cov["return_site_covers"] = map[string]interface{}{"counts": coverCount, "unreachable": deadReturns,
			"note": "per return site of every function under contract: is it reachable under the preconditions, invariants and assumed contracts (z3, 2 s)? unreachable sites hold their postconditions vacuously; listed, not failed"}
	}
	if retried > 0 {
		cov["discharged_on_second_attempt"] = retried
	}
	if len(replayNotes) > 0 {
		cov["known_finding_replays"] = replayNotes
	}
	if slowest != nil {
		cov["slowest_obligation"] = map[string]interface{}{"name": slowest.O.Name, "seconds": round2(slowest.Secs)}
	}
	if nProved != nObl {
		level = "other"
	}
	if boundedStats != nil {
		cov["bounded_stand_in"] = boundedStats
		cov["bounded_note"] = "BOUNDED: the real function (match.Match for C01/C02/C03, sio.(*Crew).ProcessMsg for C14) was run on every input of the space described in bounded_stand_in.bound and compared with an executable specification written from the property text; this part is exhaustive within that bound only and is not counted in obligations/discharged"
		if ev, ok := boundedStats["evaluations"].(float64); ok {
			cov["evaluations"] = int(ev)
		}
		if nt, ok := boundedStats["distinct_nontrivial"].(float64); ok {
			cov["distinct_nontrivial"] = int(nt)
		}
		cov["rule"] = "bounded part: exhaustive enumeration over the stated space - (pattern, message[, initial bindings]) triples for C01/C02 (non-trivial = distinct (pattern, returned binding set) pairs / pairs with at least one embedding), emission tables and submissions for C14 (every configuration counts)"
		cov["exhaustive"] = true
		if nObl == 0 {
			level = "exploration"
			if s, ok := boundedStats["samples"].([]interface{}); ok && len(s) > 0 {
				cov["samples"] = s
			}
		} else {
			level = "other"
		}
	}
	ev := map[string]interface{}{"property_id": *prop, "tier": *tier, "seed": seed, "level": level, "coverage": cov, "assumptions": assumptions,
		"wall_s": round2(wall), "violations": violations}
	os.MkdirAll(filepath.Join(*verif, "evidence"), 0o755)
	b, _ := json.MarshalIndent(ev, "", " ")
	os.WriteFile(filepath.Join(*verif, "evidence", *prop+".json"), b, 0o644)
	fmt.Printf("%s: %d functions, %d obligations, %d discharged, %d known findings, %d violations, %.1fs (load %.1fs, solvers %.1fs cpu)\n",
		*prop, len(units), nObl, nProved, nKnown, violations, wall, loadS, solverSecs)
	if violations > 0 {
		return 1
	}
	return 0
}

type witnessEntry struct {
	Obligation string `json:"obligation"`
	Pkg        string `json:"pkg"`
	Run        string `json:"run"`
	re         *regexp.Regexp
}

func loadWitnessIndex(path string) []*witnessEntry {
	var f struct {
		Witnesses []*witnessEntry `json:"witnesses"`
	}
	b, err := os.ReadFile(path)
	if err != nil {
		return nil
	}
	if err := json.Unmarshal(b, &f); err != nil {
		fmt.Fprintln(os.Stderr, "witnesses/index.json:", err)
		return nil
	}
	var out []*witnessEntry
	for _, w := range f.Witnesses {
		re, err := regexp.Compile(w.Obligation)
		if err != nil {
			continue
		}
		w.re = re
		out = append(out, w)
	}
	return out
}

var splitSuffix = regexp.MustCompile(`(/[0-9]+)?(~[0-9]+)?$`)
var retSuffix = regexp.MustCompile(`@r[0-9]+$`)

// baseObligation strips the conjunct (/k) and return-site (@rN) suffixes.
func baseObligation(name string) string {
	name = splitSuffix.ReplaceAllString(name, "")
	name = retSuffix.ReplaceAllString(name, "")
	return name
}

func sortedKeys(m map[string]bool) []string {
	out := make([]string, 0, len(m))
	for k := range m {
		out = append(out, k)
	}
	sort.Strings(out)
	return out
}

func round2(f float64) float64 { return float64(int(f*100+0.5)) / 100 }

func trunc(s string, n int) string {
	if len(s) <= n {
		return s
	}
	return s[:n] + "…"
}

func sanitize(s string) string {
	r := strings.NewReplacer("/", "_", " ", "_", "(", "", ")", "", "*", "", ">", "_", "&", "", "[", "", "]", "", ":", "_", "#", "_")
	return r.Replace(s)
}
