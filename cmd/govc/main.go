package main

import (
	"flag"
	"fmt"
	"os"
	"path/filepath"
	"sort"
	"strings"
	"time"

	"verif/internal/vc"
)

func main() {
	if len(os.Args) < 2 {
		fmt.Fprintln(os.Stderr, "usage: govc unit|check|list ...")
		os.Exit(2)
	}
	switch os.Args[1] {
	case "unit":
		cmdUnit(os.Args[2:])
	case "check":
		os.Exit(cmdCheck(os.Args[2:]))
	case "funcs":
		P, err := vc.Load("/repo", os.Args[2:])
		if err != nil {
			fmt.Fprintln(os.Stderr, err)
			os.Exit(2)
		}
		var ks []string
		for k := range P.Funcs {
			ks = append(ks, k)
		}
		sort.Strings(ks)
		for _, k := range ks {
			fmt.Println(k)
		}
	case "bindcache":
		// records the structural fingerprints of the locals of every function under contract
		// (run on a tree where all checks pass; the file is committed)
		var pats []string
		for _, f := range contractFiles("/repo") {
			rel, _ := filepath.Rel("/repo", filepath.Dir(f))
			pats = append(pats, "./"+rel)
		}
		P, err := vc.Load("/repo", pats)
		if err != nil {
			fmt.Fprintln(os.Stderr, err)
			os.Exit(2)
		}
		n, err := vc.WriteBindCache(P, vc.BindCacheFile)
		if err != nil {
			fmt.Fprintln(os.Stderr, err)
			os.Exit(2)
		}
		fmt.Printf("bindcache: %d locals of the functions under contract recorded in %s\n", n, vc.BindCacheFile)
	case "sweep":
		os.Exit(cmdSweep(os.Args[2:]))
	case "replay":
		os.Exit(cmdReplay(os.Args[2:]))
	case "witness":
		os.Exit(cmdWitness(os.Args[2:]))
	default:
		fmt.Fprintln(os.Stderr, "unknown command", os.Args[1])
		os.Exit(2)
	}
}

func pkgsOf(keys []string) []string {
	set := map[string]bool{}
	for _, k := range keys {
		// key = <shortpkg>.<rel>; shortpkg may contain slashes but no dots before the first '.' or '('
		i := strings.IndexAny(k, ".(")
		p := k[:i]
		set["./"+p] = true
	}
	var out []string
	for p := range set {
		out = append(out, p)
	}
	sort.Strings(out)
	return out
}

func cmdUnit(args []string) {
	fs := flag.NewFlagSet("unit", flag.ExitOnError)
	profile := fs.String("profile", "any", "action profile: any | pure")
	timeout := fs.Int("t", 10, "solver timeout (s)")
	repo := fs.String("repo", "/repo", "repository")
	only := fs.String("only", "", "substring filter on obligation names")
	propF := fs.String("p", "", "property (restricts the callee clauses that may be assumed)")
	dump := fs.Bool("dump", false, "print notes and obligations only, no solving")
	fs.Parse(args)
	keys := fs.Args()
	t0 := time.Now()
	P, err := vc.Load(*repo, pkgsOf(keys))
	if err != nil {
		fmt.Fprintln(os.Stderr, err)
		os.Exit(2)
	}
	fmt.Printf("loaded in %.1fs\n", time.Since(t0).Seconds())
	for _, k := range keys {
		u, err := vc.BuildUnit(P, k, *profile, *propF)
		if err != nil {
			fmt.Fprintln(os.Stderr, err)
			os.Exit(2)
		}
		fmt.Printf("== %s: %d obligations, %d lines\n", k, len(u.Obligs), len(u.Lines))
		for _, n := range u.Notes {
			fmt.Println("  note:", n)
		}
		fmt.Println("  inlined:", strings.Join(u.Inlined, ", "))
		fmt.Println("  callees:", strings.Join(u.Callees, ", "), " trusted:", strings.Join(u.Trusted, ", "))
		var obs []*vc.Oblig
		for _, o := range u.Obligs {
			if *only == "" || strings.Contains(o.Name, *only) {
				obs = append(obs, o)
			}
		}
		if *dump {
			for _, o := range obs {
				fmt.Printf("  %-70s %v %s\n", o.Name, o.Props, o.Pos)
			}
			continue
		}
		res := vc.Solve(obs, vc.SolveOpts{TimeoutS: *timeout, Seed: 1, OutDir: "/verif/out/smt"})
		for _, r := range res {
			var as []string
			for _, a := range r.Answers {
				as = append(as, fmt.Sprintf("%s=%s/%.2fs", a.Solver, a.Result, a.Secs))
			}
			fmt.Printf("  %-14s %-70s %v %s  [%s]\n", r.Status, r.O.Name, r.O.Props, r.O.Pos, strings.Join(as, " "))
		}
	}
}
