package main

import (
	"encoding/json"
	"fmt"
	"os"
	"os/exec"
	"strings"
)

// cmdReplay re-runs what a replay file records: the concrete witness test
// against the real code if there is one, and the solver on the failed
// obligation.
func cmdReplay(args []string) int {
	if len(args) < 1 {
		fmt.Fprintln(os.Stderr, "usage: govc replay <path>")
		return 2
	}
	b, err := os.ReadFile(args[0])
	if err != nil {
		fmt.Fprintln(os.Stderr, err)
		return 2
	}
	var rp map[string]interface{}
	if err := json.Unmarshal(b, &rp); err != nil {
		fmt.Fprintln(os.Stderr, err)
		return 2
	}
	fmt.Printf("property %v, obligation %v (%v)\nclause: %v\nsource: %v\n", rp["property"], rp["obligation"], rp["kind"], rp["clause"], rp["source"])
	code := 0
	if f, ok := rp["smt_file"].(string); ok && f != "" {
		if _, err := os.Stat(f); err == nil {
			out, _ := exec.Command("z3-new", "-T:20", f).CombinedOutput()
			ans := strings.TrimSpace(strings.SplitN(string(out), "\n", 2)[0])
			fmt.Printf("solver (z3 5.1.0, 20 s) on %s: %s  (unsat = obligation holds)\n", f, ans)
			if ans != "unsat" {
				code = 1
			}
		}
	}
	if t, ok := rp["replay_test"].(map[string]interface{}); ok {
		pass, out := runWitness("/verif", "/repo", fmt.Sprint(t["package"]), fmt.Sprint(t["run"]))
		fmt.Print(out)
		if !pass {
			fmt.Println("replay: the recorded input FAILS against the real code")
			return 1
		}
		fmt.Println("replay: the recorded input passes against the real code")
	}
	return code
}
