package main

import (
	"flag"
	"fmt"
	"os"
	"sort"
	"strings"

	"verif/internal/vc"
)

// cmdSweep: zero-annotation sweep. Every function of the given packages that has no contract gets an empty one (no
// precondition at all) and its generated bounds obligations (index, slice bounds, unchecked type assertion, division,
// make size, nil-map write) are tried. A refuted obligation is a CANDIDATE only: with no precondition most of them
// are excluded by the callers; each one is triaged by hand. Nil dereferences of parameters are not reported (noise).
// This command is a search aid; it is not part of any registered check.
func cmdSweep(args []string) int {
	fs := flag.NewFlagSet("sweep", flag.ExitOnError)
	repo := fs.String("repo", "/repo", "repository")
	timeout := fs.Int("t", 5, "solver timeout (s)")
	classes := fs.String("classes", "index,slice-bounds,type-assert,div-zero,makeslice-len,nilmap-write", "obligation classes to try")
	fs.Parse(args)
	vc.ExternSpec = "/verif/contracts/extern.spec"
	P, err := vc.Load(*repo, fs.Args())
	if err != nil {
		fmt.Fprintln(os.Stderr, err)
		return 2
	}
	want := map[string]bool{}
	for _, c := range strings.Split(*classes, ",") {
		want[c] = true
	}
	var keys []string
	for k, fn := range P.Funcs {
		if fn.Blocks == nil || P.Contracts.Funcs[k] != nil || strings.Contains(k, "$") {
			continue
		}
		in := false
		for _, p := range fs.Args() {
			if strings.HasPrefix(k, strings.TrimPrefix(p, "./")+".") || strings.HasPrefix(k, strings.TrimPrefix(p, "./")+".(") {
				in = true
			}
		}
		if in {
			keys = append(keys, k)
		}
	}
	sort.Strings(keys)
	for _, k := range keys {
		P.Contracts.Funcs[k] = vc.SweepContract(k)
		u, err := func() (u *vc.Unit, err error) {
			defer func() {
				if r := recover(); r != nil {
					err = fmt.Errorf("encoder panic: %v", r)
				}
			}()
			return vc.BuildUnit(P, k, "any", "SWEEP")
		}()
		delete(P.Contracts.Funcs, k)
		if err != nil {
			fmt.Printf("-- %s: not encoded (%v)\n", k, err)
			continue
		}
		var obs []*vc.Oblig
		for _, o := range u.Obligs {
			if want[o.Kind] {
				obs = append(obs, o)
			}
		}
		if len(obs) == 0 {
			continue
		}
		res := vc.Solve(obs, vc.SolveOpts{TimeoutS: *timeout, Seed: 1, OutDir: "/tmp/govc-sweep"})
		for _, r := range res {
			if r.Status == "proved" {
				continue
			}
			var as []string
			for _, a := range r.Answers {
				as = append(as, a.Solver+"="+a.Result)
			}
			fmt.Printf("CANDIDATE %-60s %s  [%s]\n", r.O.Name, r.O.Pos, strings.Join(as, " "))
		}
	}
	os.RemoveAll("/tmp/govc-sweep")
	return 0
}
