package main

import (
	"encoding/json"
	"flag"
	"fmt"
	"os"
	"os/exec"
	"path/filepath"
	"strings"
)

// runWitness runs the witness tests of /verif/witnesses/<pkg>/ matching
// `run` against the real code in repo, through go test -overlay (nothing is
// written into the repository). It returns the exit status and the output.
func runWitness(verif, repo, pkg, run string) (bool, string) {
	return runOverlay(verif, repo, "witnesses", pkg, run, nil, "120s")
}

// runOverlay runs the test files of /verif/<sub>/<pkg>/ inside package <pkg> of the repository.
func runOverlay(verif, repo, sub, pkg, run string, env []string, timeout string) (bool, string) {
	dir := filepath.Join(verif, sub, pkg)
	files, _ := filepath.Glob(filepath.Join(dir, "*_test.go"))
	if len(files) == 0 {
		return false, "no witness files in " + dir
	}
	ov := map[string]map[string]string{"Replace": {}}
	for _, f := range files {
		ov["Replace"][filepath.Join(repo, pkg, "zz_verif_"+filepath.Base(f))] = f
	}
	scratch, err := os.MkdirTemp("", "govc-witness")
	if err != nil {
		return false, err.Error()
	}
	defer os.RemoveAll(scratch)
	ovf := filepath.Join(scratch, "overlay.json")
	b, _ := json.Marshal(ov)
	os.WriteFile(ovf, b, 0o644)
	cmd := exec.Command("go", "test", "-overlay", ovf, "-vet=off", "-count=1", "-timeout", timeout, "-run", run, "./"+pkg)
	cmd.Dir = repo
	cmd.Env = append(os.Environ(), "GOFLAGS=-mod=mod", "GOPROXY=off", "GOSUMDB=off", "GOTOOLCHAIN=local")
	cmd.Env = append(cmd.Env, env...)
	out, err := cmd.CombinedOutput()
	return err == nil, string(out)
}

func cmdWitness(args []string) int {
	fs := flag.NewFlagSet("witness", flag.ExitOnError)
	repo := fs.String("repo", "/repo", "repository")
	verif := fs.String("verif", "/verif", "verif directory")
	pkg := fs.String("pkg", "core", "package (relative to the repo root)")
	run := fs.String("run", "TestWitness", "test name pattern")
	fs.Parse(args)
	ok, out := runWitness(*verif, *repo, *pkg, *run)
	fmt.Print(out)
	if !ok {
		fmt.Println("witness: FAILS on this tree (" + strings.TrimSpace(*run) + ")")
		return 1
	}
	fmt.Println("witness: passes on this tree")
	return 0
}
