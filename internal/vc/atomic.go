package vc

import (
	"fmt"
	"go/types"
	"sort"
	"strings"

	"golang.org/x/tools/go/ssa"
)

// AtomicFieldUnit checks the access discipline of a field declared
// `atomicfield`: in every function of the package, the field's address is
// used only as an argument of a sync/atomic function, or to initialise the
// field of a struct allocated in the same function before it escapes.
func AtomicFieldUnit(P *Program, af *AtomicField) *Unit {
	e := &enc{P: P, S: newSorts(), famSort: map[string]string{}, notes: map[string]bool{}, names: map[string]int{},
		unitName: af.Pkg + "." + af.Type + "." + af.Field}
	var fns []*ssa.Function
	for _, fn := range P.Funcs {
		if fn.Pkg != nil && shortPkg(fn.Pkg.Pkg.Path()) == af.Pkg && fn.Blocks != nil {
			fns = append(fns, fn)
		}
	}
	sort.Slice(fns, func(i, j int) bool { return FuncKey(fns[i]) < FuncKey(fns[j]) })
	uses := 0
	for _, fn := range fns {
		for _, b := range fn.Blocks {
			for _, in := range b.Instrs {
				fa, ok := in.(*ssa.FieldAddr)
				if !ok {
					continue
				}
				pt, ok := fa.X.Type().Underlying().(*types.Pointer)
				if !ok {
					continue
				}
				named, ok := pt.Elem().(*types.Named)
				if !ok || named.Obj().Name() != af.Type {
					continue
				}
				st := named.Underlying().(*types.Struct)
				if st.Field(fa.Field).Name() != af.Field {
					continue
				}
				uses++
				good := true
				why := ""
				for _, r := range *fa.Referrers() {
					switch u := r.(type) {
					case *ssa.DebugRef:
					case ssa.CallInstruction:
						callee := u.Common().StaticCallee()
						if callee == nil || callee.Pkg == nil || callee.Pkg.Pkg.Path() != "sync/atomic" {
							good = false
							why = "passed to a function outside sync/atomic"
						}
					case *ssa.Store:
						if _, fresh := fa.X.(*ssa.Alloc); !(fresh && u.Addr == ssa.Value(fa)) {
							good = false
							why = "plain store into the field of a struct that is not freshly allocated here"
						}
					default:
						good = false
						why = fmt.Sprintf("plain access (%T)", r)
					}
				}
				goal := "true"
				if !good {
					goal = "false"
				}
				pos := P.Fset.Position(fa.Pos())
				e.oblig1("access-discipline", "access-discipline:"+strings.TrimPrefix(FuncKey(fn), af.Pkg+"."), af.Props, "true", goal,
					fmt.Sprintf("%s:%d", strings.TrimPrefix(pos.Filename, P.RepoDir+"/"), pos.Line),
					"every use of "+af.Type+"."+af.Field+" goes through sync/atomic (or initialises a fresh struct) "+why)
			}
		}
	}
	if uses == 0 {
		e.oblig1("binding", "binding:atomicfield", af.Props, "true", "false", fmt.Sprintf("%s:%d", af.File, af.Line), "no use of the field "+af.Type+"."+af.Field+" found: the contract no longer matches the code")
	}
	u := &Unit{Fn: e.unitName, Lines: e.lines, Obligs: e.obligs, e: e}
	for _, o := range u.Obligs {
		o.unit = u
	}
	return u
}
