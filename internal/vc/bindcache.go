package vc

import (
	"encoding/json"
	"fmt"
	"go/ast"
	"go/types"
	"os"
	"sort"
	"strings"

	"golang.org/x/tools/go/ssa"
)

// Binding cache: contract clauses name local variables. A harmless rename of
// a local would make such a clause unbindable. To keep that from raising an
// alarm, `govc bindcache` records, for every function under contract on a tree
// where all checks pass, a structural fingerprint of each named local (the
// kinds, types and ordinals of the SSA values it stands for). When a name used
// by a contract no longer exists in a function, and exactly one *new* name of
// that function has the fingerprint recorded for it, the old name is read as
// an alias of the new one (and noted in the evidence). A rename combined with a
// change of the code around the variable changes the fingerprint and is
// reported as before.

// BindCacheFile is where the cache lives (committed in /verif).
var BindCacheFile = "/verif/contracts/bindings.cache.json"

type bindCache map[string]map[string]string // function key -> local name -> fingerprint

var loadedBindCache bindCache

func loadBindCache() bindCache {
	if loadedBindCache != nil {
		return loadedBindCache
	}
	loadedBindCache = bindCache{}
	if b, err := os.ReadFile(BindCacheFile); err == nil {
		json.Unmarshal(b, &loadedBindCache)
	}
	return loadedBindCache
}

func instrKind(in ssa.Instruction) string {
	switch i := in.(type) {
	case *ssa.Call:
		if f := i.Common().StaticCallee(); f != nil {
			return "Call:" + f.Name()
		}
		if i.Common().IsInvoke() {
			return "Invoke:" + i.Common().Method.Name()
		}
		return "Call:dyn"
	case *ssa.UnOp:
		return "UnOp:" + i.Op.String()
	case *ssa.BinOp:
		return "BinOp:" + i.Op.String()
	case *ssa.Extract:
		return fmt.Sprintf("Extract:%d", i.Index)
	}
	return strings.TrimPrefix(fmt.Sprintf("%T", in), "*ssa.")
}

// localFingerprints: name -> fingerprint for the named locals of fn.
func localFingerprints(fn *ssa.Function) map[string]string {
	ids := map[ssa.Value]string{}
	count := map[string]int{}
	for _, b := range fn.Blocks {
		for _, in := range b.Instrs {
			v, ok := in.(ssa.Value)
			if !ok {
				continue
			}
			k := instrKind(in) + "|" + typeStr(v.Type())
			ids[v] = fmt.Sprintf("%s#%d", k, count[k])
			count[k]++
		}
	}
	sets := map[string]map[string]bool{}
	add := func(name string, v ssa.Value) {
		id, ok := ids[v]
		if !ok || name == "" || name == "_" {
			return
		}
		if sets[name] == nil {
			sets[name] = map[string]bool{}
		}
		sets[name][id] = true
	}
	for _, b := range fn.Blocks {
		for _, in := range b.Instrs {
			switch i := in.(type) {
			case *ssa.DebugRef:
				if id, ok := i.Expr.(*ast.Ident); ok {
					if v, isVar := i.Object().(*types.Var); isVar && v.IsField() {
						continue
					}
					add(id.Name, i.X)
				}
			case *ssa.Alloc:
				add(i.Comment, i)
			case *ssa.Phi:
				add(i.Comment, i)
			}
		}
	}
	// captured variables of a function literal: identified by their position
	for i, fv := range fn.FreeVars {
		if sets[fv.Name()] == nil {
			sets[fv.Name()] = map[string]bool{}
		}
		sets[fv.Name()][fmt.Sprintf("FreeVar|%s#%d", typeStr(fv.Type()), i)] = true
	}
	out := map[string]string{}
	for n, s := range sets {
		var l []string
		for id := range s {
			l = append(l, id)
		}
		sort.Strings(l)
		out[n] = strings.Join(l, ";")
	}
	return out
}

type nameAlias struct {
	fwd map[string]string // name in the contract (old) -> name in the code (new)
	rev map[string]string
}

var aliasMemo = map[*ssa.Function]*nameAlias{}

// aliasesOf computes the renames of fn's locals relative to the binding cache.
func aliasesOf(fn *ssa.Function) *nameAlias {
	if a, ok := aliasMemo[fn]; ok {
		return a
	}
	a := &nameAlias{fwd: map[string]string{}, rev: map[string]string{}}
	aliasMemo[fn] = a
	old := loadBindCache()[FuncKey(fn)]
	if len(old) == 0 {
		return a
	}
	cur := localFingerprints(fn)
	for o, fp := range old {
		if _, still := cur[o]; still || fp == "" {
			continue
		}
		var cands []string
		for n, nfp := range cur {
			if _, wasThere := old[n]; wasThere {
				continue
			}
			if nfp == fp {
				cands = append(cands, n)
			}
		}
		if len(cands) == 1 {
			a.fwd[o] = cands[0]
			a.rev[cands[0]] = o
		}
	}
	return a
}

// WriteBindCache records the fingerprints of the locals of every function under contract.
func WriteBindCache(P *Program, path string) (int, error) {
	out := bindCache{}
	n := 0
	for key, fc := range P.Contracts.Funcs {
		if fc.Kind != "func" {
			continue
		}
		fn := P.Funcs[key]
		if fn == nil || fn.Blocks == nil {
			continue
		}
		fps := localFingerprints(fn)
		if len(fps) > 0 {
			out[key] = fps
			n += len(fps)
		}
	}
	b, err := json.MarshalIndent(out, "", " ")
	if err != nil {
		return 0, err
	}
	return n, os.WriteFile(path, b, 0o644)
}
