package vc

import (
	"fmt"
	"go/types"
	"strings"

	"golang.org/x/tools/go/ssa"
)

const maxInlineDepth = 4

// KnownFailing: obligations recorded in known_findings.json (name -> property).
// Their clauses are never assumed at call sites.
var KnownFailing = map[string]string{}

type closureVal struct {
	fn       *ssa.Function
	bindings []Term
}

func hasLoops(fn *ssa.Function) bool {
	for _, b := range fn.Blocks {
		for _, s := range b.Succs {
			if s.Dominates(b) {
				return true
			}
		}
	}
	return false
}

func (x *fx) call(ci ssa.CallInstruction) []Term {
	e := x.e
	com := ci.Common()
	sig := com.Signature()
	if com.IsInvoke() {
		key := ifaceKey(com)
		recv := x.val(com.Value)
		x.safety("nil-iface-call", x.describe(com.Value)+"."+com.Method.Name(), fmt.Sprintf("(not ((_ is VNil) %s))", recv), ci.Pos())
		args := append([]Term{recv}, x.valsOf(com.Args)...)
		if fc := e.P.Contracts.Funcs[key]; fc != nil {
			ptypes := []types.Type{com.Value.Type()}
			for i := 0; i < sig.Params().Len(); i++ {
				ptypes = append(ptypes, sig.Params().At(i).Type())
			}
			names := fc.Params
			if len(names) == len(ptypes)-1 {
				names = append([]string{"recv"}, names...)
			}
			return x.contractCall(fc, key, names, ptypes, args, sig.Results(), nil, ci)
		}
		return x.unknownCall("interface method "+key, sig.Results(), &Effects{All: true, Why: "interface call without contract: " + key})
	}
	switch cal := com.Value.(type) {
	case *ssa.Builtin:
		return x.builtin(ci, cal)
	case *ssa.Function:
		return x.staticCall(ci, cal, x.valsOf(com.Args), nil)
	case *ssa.MakeClosure:
		return x.staticCall(ci, cal.Fn.(*ssa.Function), x.valsOf(com.Args), x.valsOf(cal.Bindings))
	}
	// dynamic function value
	fv := x.val(com.Value)
	x.safety("nil-func-call", x.describe(com.Value), fmt.Sprintf("(not (= %s 0))", fv), ci.Pos())
	if cv, ok := e.closByRef[fv]; ok {
		return x.staticCall(ci, cv.fn, x.valsOf(com.Args), cv.bindings)
	}
	if f, ok := e.fnByRef[fv].(*ssa.Function); ok {
		return x.staticCall(ci, f, x.valsOf(com.Args), nil)
	}
	desc := x.describe(com.Value)
	root := x.rootContract()
	if root != nil {
		if key, ok := root.CallsAs[desc]; ok {
			if fc := e.P.Contracts.Funcs[key]; fc != nil {
				var ptypes []types.Type
				for i := 0; i < sig.Params().Len(); i++ {
					ptypes = append(ptypes, sig.Params().At(i).Type())
				}
				names := fc.Params
				args := x.valsOf(com.Args)
				if target := e.P.Funcs[key]; target != nil && fc.Kind == "func" {
					// a sibling closure called through a captured variable: its parameters by
					// position, its captured variables by name (they are the caller's)
					names = nil
					for _, p := range target.Params {
						names = append(names, p.Name())
					}
					for _, fv := range target.FreeVars {
						if tv, ok := x.params[fv.Name()]; ok {
							names = append(names, fv.Name())
							ptypes = append(ptypes, fv.Type())
							args = append(args, tv.T)
						}
					}
				}
				return x.contractCall(fc, key, names, ptypes, args, sig.Results(), nil, ci)
			}
			e.note("calls-as contract not found: " + key)
		}
	}
	return x.unknownCall("dynamic call of "+desc, sig.Results(), &Effects{All: true, Why: "dynamic call of " + desc + " in " + x.fn.Name()})
}

func (x *fx) rootContract() *FuncContract {
	if x.fc != nil {
		return x.fc
	}
	return x.e.rootFC
}

func (x *fx) staticCall(ci ssa.CallInstruction, fn *ssa.Function, args []Term, free []Term) (libResults []Term) {
	e := x.e
	defer x.lockCall(fn, ci)
	if root := x.rootContract(); root != nil && x.top {
		for _, af := range root.ArgFrom {
			if fn.Name() == af.Callee && af.Arg < len(ci.Common().Args) {
				ok := x.producedBy(ci.Common().Args[af.Arg], af.Producer, 0)
				goal := "true"
				if !ok {
					goal = "false"
				}
				e.oblig("argfrom", fmt.Sprintf("argfrom:%s#%d", af.Callee, af.Arg), af.Props, x.curReach, goal, x.pos(ci.Pos()),
					fmt.Sprintf("argument %d of %s is the result of a call of %s in this function", af.Arg, af.Callee, af.Producer))
			}
		}
	}
	if root := x.rootContract(); root != nil && x.top {
		var cps []*Clause
		for label, cs := range root.CallPre {
			// CALLEE is a function name, optionally qualified by its package name (json.Unmarshal) or path
			if label == fn.Name() || (fn.Pkg != nil && (label == fn.Pkg.Pkg.Name()+"."+fn.Name() || label == fn.Pkg.Pkg.Path()+"."+fn.Name())) {
				cps = append(cps, cs...)
			}
		}
		for _, c := range cps {
			if c.Profile != "" && c.Profile != e.profile {
				continue
			}
			cenv := x.envAt(x.cur, ci.Block(), nil, true)
			cenv.pkg = e.pkgOf(root)
			for i, a := range ci.Common().Args {
				if i < len(args) {
					cenv.vars[fmt.Sprintf("arg%d", i)] = TV{args[i], a.Type()}
				}
			}
			tv, err := cenv.eval(c.Expr)
			if err != nil {
				e.bindingError(FuncKey(x.fn), c, err)
				continue
			}
			e.oblig("callpre", fmt.Sprintf("callpre@%s:%d", fn.Name(), c.Line), c.Props, x.curReach, tv.T, x.pos(ci.Pos()), c.Text)
		}
	}
	sig := fn.Signature
	key := FuncKey(fn)
	inModule := fn.Pkg != nil && strings.HasPrefix(fn.Pkg.Pkg.Path(), ModulePath)
	if !inModule {
		// errors made by library code other than the script engine are plain: their Error() is total
		defer func() {
			if fn.Pkg != nil && strings.Contains(fn.Pkg.Pkg.Path(), "dop251/goja") {
				return
			}
			for i := 0; i < sig.Results().Len() && i < len(libResults); i++ {
				if types.Identical(sig.Results().At(i).Type(), types.Universe.Lookup("error").Type()) {
					e.assume(fmt.Sprintf("(or ((_ is VNil) %s) (plainerr %s))", libResults[i], libResults[i]))
				}
			}
		}()
		ek := externKey(fn)
		if fc := e.P.Contracts.Funcs[ek]; fc != nil {
			var ptypes []types.Type
			if sig.Recv() != nil {
				ptypes = append(ptypes, sig.Recv().Type())
			}
			for i := 0; i < sig.Params().Len(); i++ {
				ptypes = append(ptypes, sig.Params().At(i).Type())
			}
			libResults = x.contractCall(fc, ek, fc.Params, ptypes, args, sig.Results(), nil, ci)
			return libResults
		}
		if defaultPureExtern(fn) {
			e.trusted["library function "+fn.String()+" has no effect on the program's heap (default for package "+fn.Pkg.Pkg.Path()+", no explicit stub)"] = true
			if strings.HasPrefix(fn.Name(), "Fatal") || strings.HasPrefix(fn.Name(), "Panic") || fn.Name() == "Exit" {
				// does not return
				x.curReach = "false"
			}
			libResults = x.unknownCall("external "+fn.String(), sig.Results(), newEffects())
			return libResults
		}
		// code outside Comcast/sheens is never inlined: without a stub it is an unknown call
		libResults = x.unknownCall("external "+fn.String(), sig.Results(), &Effects{All: true, Why: "external function without stub: " + fn.String()})
		return libResults
	}
	fc := e.P.Contracts.Funcs[key]
	useContract := fc != nil && !fc.Inline
	if useContract {
		var names []string
		var ptypes []types.Type
		for _, p := range fn.Params {
			names = append(names, p.Name())
			ptypes = append(ptypes, p.Type())
		}
		for i, fv := range fn.FreeVars {
			names = append(names, fv.Name())
			ptypes = append(ptypes, fv.Type())
			if i < len(free) {
				args = append(args, free[i])
			}
		}
		return x.contractCall(fc, key, names, ptypes, args, sig.Results(), fn, ci)
	}
	if x.depth < maxInlineDepth && !hasLoops(fn) && !e.inlineBusy[fn] {
		return x.inline(fn, args, free)
	}
	// not inlinable: syntactic effects, no postcondition
	ec := e.effCtx()
	eff := ec.ofFunc(fn)
	e.note("call of " + key + " abstracted by its syntactic effects (no contract; has loops or too deep)")
	return x.unknownCall(key, sig.Results(), eff)
}

func (x *fx) inline(fn *ssa.Function, args []Term, free []Term) []Term {
	e := x.e
	e.inlined[FuncKey(fn)] = true
	e.inlineBusy[fn] = true
	defer delete(e.inlineBusy, fn)
	y := e.newFx(fn, x.depth+1)
	y.tag = strings.TrimPrefix(FuncKey(fn), "")
	if x.tag != "" {
		y.tag = x.tag + ">" + y.tag
	}
	y.locals = nil
	y.run(args, free, x.cur, x.curReach)
	if len(y.rets) == 0 {
		// never returns (panics): path ends
		x.cur = x.cur.clone()
		x.curReach = "false"
		n := fn.Signature.Results().Len()
		out := make([]Term, n)
		for i := range out {
			out[i] = e.S.zero(fn.Signature.Results().At(i).Type())
		}
		return out
	}
	var conds []Term
	var states []*State
	for _, r := range y.rets {
		conds = append(conds, r.reach)
		states = append(states, r.st)
	}
	x.cur = e.merge(conds, states)
	n := fn.Signature.Results().Len()
	out := make([]Term, n)
	for i := 0; i < n; i++ {
		ts := make([]Term, len(y.rets))
		for j, r := range y.rets {
			ts[j] = r.vals[i]
		}
		if len(ts) == 1 {
			out[i] = ts[0]
		} else {
			out[i] = e.define("ret:"+fn.Name(), e.S.sortOf(fn.Signature.Results().At(i).Type()), iteChain(conds, ts))
		}
	}
	// the caller continues only if the callee returned
	if len(y.rets) >= 1 {
		x.curReach = e.define("reach:after:"+fn.Name(), "Bool", or(conds...))
	}
	// closures created by the callee stay resolvable
	return out
}

func (x *fx) unknownCall(what string, results *types.Tuple, eff *Effects) []Term {
	e := x.e
	if !eff.none() {
		x.unknownEffect(eff)
	}
	out := make([]Term, results.Len())
	for i := 0; i < results.Len(); i++ {
		t := e.declare("res", e.S.sortOf(results.At(i).Type()))
		e.assumeWF(t, results.At(i).Type(), x.cur.alloc)
		for _, l := range x.locals {
			switch results.At(i).Type().Underlying().(type) {
			case *types.Pointer, *types.Map:
				e.assume(fmt.Sprintf("(not (= %s %s))", t, l))
			}
		}
		out[i] = t
	}
	return out
}

// contractCall: assert pre, havoc per modifies, assume post.
func (x *fx) contractCall(fc *FuncContract, key string, names []string, ptypes []types.Type, args []Term, results *types.Tuple, fn *ssa.Function, ci ssa.CallInstruction) []Term {
	e := x.e
	if fc.Trusted || fc.Kind != "func" {
		e.trusted[key] = true
	} else {
		e.callees[key] = true
	}
	fc.used = true
	env := &Env{e: e, vars: map[string]TV{}, st: x.cur, old: x.cur, allocOld: x.cur.alloc, pkg: e.pkgOf(fc), fx: x}
	for i, n := range names {
		if i < len(args) && i < len(ptypes) {
			env.vars[n] = TV{T: args[i], Ty: ptypes[i]}
		}
	}
	x.bindLogicals(fc, env)
	// preconditions
	for _, c := range fc.Requires {
		if c.Profile != "" && c.Profile != e.profile {
			continue
		}
		tv, err := env.eval(c.Expr)
		if err != nil {
			e.bindingError(key, c, err)
			continue
		}
		lbl := c.Label
		if lbl == "" {
			lbl = fmt.Sprint(c.Line)
		}
		props := e.safetyProps
		if len(c.Props) > 0 {
			props = c.Props
		}
		name := "pre@" + shortKey(key) + ":" + lbl
		if x.tag != "" {
			name += "@" + x.tag
		}
		e.oblig("pre", name, props, x.curReach, tv.T, x.pos(ci.Pos()), c.Text)
	}
	// ghost sets: the callee adds to a set owned by the caller (after its preconditions were checked)
	for _, ga := range fc.GhostAdds {
		tv, err := env.eval(ga.Expr)
		if err != nil {
			e.note("ghostadd of " + key + ": " + err.Error())
			continue
		}
		gk := "gs:" + ga.Set
		e.famSort["ghost:"+gk] = "(Array String Bool)"
		cur := x.ghostGet(x.cur, gk, "(Array String Bool)")
		x.cur.ghost[gk] = e.define("ghostset", "(Array String Bool)", fmt.Sprintf("(store %s %s true)", cur, tv.T))
	}
	acrossKey := shortKey(key)
	if i := strings.LastIndex(acrossKey, "."); i >= 0 {
		acrossKey = acrossKey[i+1:]
	}
	var across []*Clause
	if root := x.rootContract(); root != nil && x.top {
		across = root.Across[acrossKey]
	}
	for _, c := range across {
		if c.Profile != "" && c.Profile != e.profile {
			continue
		}
		aenv := x.envAt(x.cur, ci.Block(), nil, true)
		aenv.pkg = e.pkgOf(x.rootContract())
		tv, err := aenv.eval(c.Expr)
		if err != nil {
			e.bindingError(FuncKey(x.fn), c, err)
			continue
		}
		e.oblig("across", "across-pre@"+acrossKey+":"+fmt.Sprint(c.Line), c.Props, x.curReach, tv.T, x.pos(ci.Pos()), c.Text)
	}
	defer func() {
		for _, c := range across {
			if c.Profile != "" && c.Profile != e.profile {
				continue
			}
			aenv := x.envAt(x.cur, ci.Block(), nil, true)
			aenv.pkg = e.pkgOf(x.rootContract())
			aenv.hyp = true
			if tv, err := aenv.eval(c.Expr); err == nil {
				e.assume(implies(x.curReach, tv.T))
				e.trusted["callbacks of "+acrossKey+" preserve: "+c.Text] = true
			}
		}
	}()
	pre := x.cur
	if fc.MayPanic {
		if fnRecovers(x.fn) {
			e.trusted["a panic of "+key+" in "+x.fn.Name()+" is caught by that function's own deferred recover (the recover itself is not modelled)"] = true
		} else {
			x.safety("panic", "call:"+shortKey(key), "false", ci.Pos())
		}
	}
	if e.wfree && !fc.Pure {
		wc := fc.WritesClause(e.profile)
		if wc == nil {
			wc = fc.Mod(e.profile)
		}
		if wc == nil {
			e.oblig("write-target", "write-target:call:"+shortKey(key), e.writeProps, x.curReach, "false", x.pos(ci.Pos()), "call of "+key+" whose written objects are unknown")
		} else if wc.Since != nil {
			if tv, err := env.eval(wc.Since); err == nil {
				e.oblig("write-target", "write-target:call:"+shortKey(key), e.writeProps, x.curReach, fmt.Sprintf("(>= %s %s)", tv.T, e.entryState.alloc), x.pos(ci.Pos()),
					"call of "+key+" writes only objects allocated during this activation")
			}
		} else {
			for _, m := range wc.Exprs {
				tv, err := env.eval(m)
				if err != nil {
					continue
				}
				for _, r := range refOf(tv) {
					x.writeTarget(r, "call:"+shortKey(key), ci.Pos())
				}
			}
		}
	}
	// effects
	var eff *Effects
	ec := e.effCtx()
	if fn != nil {
		eff = ec.ofFunc(fn)
		if fc.Pure {
			eff = newEffects()
		}
	} else {
		eff = ec.ofContract(fc, key, ptypes...)
	}
	mc := fc.Mod(e.profile)
	modApplies := mc != nil
	if !eff.none() {
		x.registerEffects(eff)
		sp := x.specOf(eff, "call of "+key)
		if modApplies {
			// object-level frame from the contract
			sp.exact = true
			sp.keepRefs = nil
			if eff.All {
				sp.all = true
				sp.writesAll = true
			}
			sp.unknown = false
			if mc.Since != nil {
				if tv, err := env.eval(mc.Since); err == nil {
					sp.sinceMark = tv.T
					sp.exact = false
				} else {
					e.note("modifies since() of " + key + ": " + err.Error())
				}
			}
			if len(mc.Exprs) == 0 && mc.Since == nil {
				sp.writesAll = false
				sp.writes = map[string]bool{}
			}
			for _, m := range mc.Exprs {
				tv, err := env.eval(m)
				if err != nil {
					e.note("modifies clause of " + key + ": " + err.Error())
					continue
				}
				for _, r := range refOf(tv) {
					sp.modRefs = append(sp.modRefs, r)
					sp.modFams = append(sp.modFams, famOfValue(tv))
				}
			}
		} else if eff.All {
			sp.unknown = true
		}
		x.cur = e.havoc(x.cur, sp)
	}
	if fn != nil {
		// call logs the callee may advance (other than its own, handled below)
		// are unknown afterwards unless its postconditions say otherwise
		keys := ec.logKeysBody(fn)
		var hit []string
		for _, gk := range sortedKeys(x.cur.ghost) {
			if strings.HasPrefix(gk, "fret:") {
				continue
			}
			if strings.HasPrefix(gk, "n:"+key) || strings.HasPrefix(gk, "ret:"+key+":") || strings.HasPrefix(gk, "arg:"+key+":") {
				continue
			}
			if logHit(keys, gk) {
				hit = append(hit, gk)
			}
		}
		if len(hit) > 0 {
			if x.cur == pre {
				x.cur = x.cur.clone()
			}
			for _, gk := range hit {
				prev := x.cur.ghost[gk]
				x.cur.ghost[gk] = e.declare("ghost:"+gk, e.ghostSort(gk))
				if strings.HasPrefix(gk, "n:") {
					e.assume(fmt.Sprintf("(>= %s %s)", x.cur.ghost[gk], prev))
				}
			}
		}
	}
	out := make([]Term, results.Len())
	post := &Env{e: e, vars: map[string]TV{}, st: x.cur, old: pre, allocOld: pre.alloc, pkg: env.pkg, fx: x, hyp: true}
	for k, v := range env.vars {
		post.vars[k] = v
	}
	rnames := fc.Returns
	for i := 0; i < results.Len(); i++ {
		rt := results.At(i).Type()
		t := e.declare("res:"+shortKey(key), e.S.sortOf(rt))
		e.assumeWF(t, rt, x.cur.alloc)
		out[i] = t
		if i < len(rnames) {
			post.vars[rnames[i]] = TV{T: t, Ty: rt}
		} else if results.At(i).Name() != "" {
			post.vars[results.At(i).Name()] = TV{T: t, Ty: rt}
		}
		if results.Len() == 1 {
			post.vars["result"] = TV{T: t, Ty: rt}
		}
	}
	if fc.Logged {
		nk := "n:" + key
		x.cur.ghost[nk] = e.define("ncalls", "Int", fmt.Sprintf("(+ %s 1)", x.ghostGet(x.cur, nk, "Int")))
		for i := 0; i < results.Len() && i < len(rnames); i++ {
			gk := "ret:" + key + ":" + rnames[i]
			e.famSort["ghost:"+gk] = e.S.sortOf(results.At(i).Type())
			e.ghostTy[gk] = results.At(i).Type()
			x.cur.ghost[gk] = out[i]
		}
		for i, n := range names {
			if i < len(args) && i < len(ptypes) {
				gk := "arg:" + key + ":" + n
				e.famSort["ghost:"+gk] = e.S.sortOf(ptypes[i])
				e.ghostTy[gk] = ptypes[i]
				x.cur.ghost[gk] = args[i]
			}
		}
	}
	logSnap := func() {}
	if fc.Logged {
		if _, have := x.cur.ghost["fret:"+key+":#"]; !have {
			x.cur.ghost["fret:"+key+":#"] = "1"
			e.famSort["ghost:fret:"+key+":#"] = "Int"
			for i := 0; i < results.Len() && i < len(rnames); i++ {
				gk := "fret:" + key + ":" + rnames[i]
				e.famSort["ghost:"+gk] = e.S.sortOf(results.At(i).Type())
				e.ghostTy[gk] = results.At(i).Type()
				x.cur.ghost[gk] = out[i]
			}
			logSnap = func() {
				sn := x.cur.clone()
				sn.snaps = nil
				if x.cur.snaps == nil {
					x.cur.snaps = map[string]*State{}
				}
				x.cur.snaps[key] = sn
			}
		}
	}
	defer logSnap()
	// the callee's key functions (Skolem functions of its existential clauses) are fresh symbols at every call site
	if target := e.P.Funcs[key]; target != nil && fc.Kind == "func" {
		for ord, lc := range fc.Loops {
			for _, kf := range lc.KeyFns {
				kt := loopRangeKey(target, ord)
				if kt == nil {
					continue
				}
				sym := e.declareFun("gf:"+kf.Name+"@call", e.S.sortOf(kt), "Int")
				if post.fnAlias == nil {
					post.fnAlias = map[string]string{}
				}
				post.fnAlias[kf.Name] = sym
			}
		}
	}
	for _, c := range fc.Ensures {
		if c.Profile != "" && c.Profile != e.profile {
			continue
		}

		if c.Label != "" {
			if _, bad := KnownFailing[key+"#post:"+c.Label]; bad {
				continue // a clause recorded as a known finding is never assumed
			}
		}
		tv, err := post.eval(c.Expr)
		if err != nil {
			// a clause about the callee's internal call log cannot be used by a caller
			e.note("clause of " + key + " not usable at call sites: " + err.Error())
			continue
		}
		e.curGroup = groupOf(c.Props)
		e.assume(implies(x.curReach, tv.T))
		e.curGroup = ""
	}
	return out
}

func shortKey(k string) string {
	for _, p := range []string{"iface:", "sig:", "extern:"} {
		k = strings.TrimPrefix(k, p)
	}
	return k
}

// refOf lists the object references denoted by a value (for modifies lists).
func refOf(tv TV) []Term {
	t, ok := tv.Ty.(types.Type)
	if !ok {
		return nil
	}
	switch t.Underlying().(type) {
	case *types.Pointer, *types.Map, *types.Chan, *types.Signature:
		return []Term{tv.T}
	case *types.Slice:
		return []Term{"(sref " + tv.T + ")"}
	case *types.Interface:
		return []Term{"(vref " + tv.T + ")"}
	}
	return nil
}

// ---------- builtins ----------

func (x *fx) builtin(ci ssa.CallInstruction, b *ssa.Builtin) []Term {
	e := x.e
	st := x.cur
	com := ci.Common()
	args := com.Args
	switch b.Name() {
	case "len":
		x.guardedAccess(args[0], false, ci.Pos(), "len")
		a := x.val(args[0])
		switch t := args[0].Type().Underlying().(type) {
		case *types.Map:
			return []Term{e.define("len", "Int", x.mapLen(st, args[0].Type(), a))}
		case *types.Slice:
			return []Term{"(slen " + a + ")"}
		case *types.Basic:
			return []Term{"(str.len " + a + ")"}
		case *types.Array:
			return []Term{fmt.Sprint(t.Len())}
		case *types.Pointer:
			if at, ok := t.Elem().Underlying().(*types.Array); ok {
				return []Term{fmt.Sprint(at.Len())}
			}
		}
		e.note("len of unsupported type in " + x.fn.Name())
		return []Term{e.declare("len", "Int")}
	case "cap":
		a := x.val(args[0])
		if _, ok := args[0].Type().Underlying().(*types.Slice); ok {
			return []Term{"(scap " + a + ")"}
		}
		return []Term{e.declare("cap", "Int")}
	case "delete":
		x.guardedAccess(args[0], true, ci.Pos(), "delete")
		x.mapKeyHashable(args[1], ci.Pos())
		x.writeTarget(x.val(args[0]), x.describe(args[0]), ci.Pos())
		x.mapDelete(st, args[0].Type(), x.val(args[0]), x.val(args[1]))
		return nil
	case "append":
		return []Term{x.appendB(ci, args)}
	case "copy":
		e.note("copy builtin abstracted in " + x.fn.Name())
		if sl, ok := args[0].Type().Underlying().(*types.Slice); ok {
			f := e.elemFam(sl.Elem())
			d := x.val(args[0])
			h := e.get(st, f)
			nb := e.declare("copied", "(Array Int "+e.S.sortOf(sl.Elem())+")")
			e.set(st, f, fmt.Sprintf("(store %s (sref %s) %s)", h, d, nb))
		}
		n := e.declare("ncopied", "Int")
		e.assume("(>= " + n + " 0)")
		return []Term{n}
	case "panic":
		x.safety("panic", x.describe(args[0]), "false", ci.Pos())
		return nil
	case "recover":
		return []Term{e.declare("recovered", "Val")}
	case "print", "println":
		return nil
	case "min", "max":
		a, c := x.val(args[0]), x.val(args[1])
		op := "<="
		if b.Name() == "max" {
			op = ">="
		}
		return []Term{fmt.Sprintf("(ite (%s %s %s) %s %s)", op, a, c, a, c)}
	case "close":
		return nil
	}
	e.note("unsupported builtin " + b.Name())
	sig := com.Signature()
	return x.unknownCall("builtin "+b.Name(), sig.Results(), &Effects{All: true, Why: "builtin " + b.Name()})
}

func (x *fx) appendB(ci ssa.CallInstruction, args []ssa.Value) Term {
	e := x.e
	st := x.cur
	sl := args[0].Type().Underlying().(*types.Slice)
	es := e.S.sortOf(sl.Elem())
	f := e.elemFam(sl.Elem())
	s := x.val(args[0])
	var t Term
	if isString(args[1].Type()) {
		// append([]byte, string...)
		e.note("append of string bytes abstracted")
		r := e.declare("app", "Slice")
		e.assumeWF(r, args[0].Type(), st.alloc)
		return r
	}
	t = x.val(args[1])
	h := e.get(st, f)
	n := "(slen " + t + ")"
	// constant small varargs? (slice of a fresh array of known length)
	knownN := -1
	if sv, ok := args[1].(*ssa.Slice); ok {
		if al, ok := sv.X.(*ssa.Alloc); ok && sv.Low == nil && sv.High == nil {
			if at, ok := al.Type().Underlying().(*types.Pointer).Elem().Underlying().(*types.Array); ok {
				knownN = int(at.Len())
			}
		}
	}
	if c, ok := args[1].(*ssa.Const); ok && c.Value == nil {
		knownN = 0
	}
	if knownN == 0 {
		return s
	}
	newLen := e.define("applen", "Int", fmt.Sprintf("(+ (slen %s) %s)", s, n))
	inplace := e.define("inplace", "Bool", fmt.Sprintf("(<= %s (scap %s))", newLen, s))
	fresh := x.newRef()
	ncap := e.declare("appcap", "Int")
	e.assume(fmt.Sprintf("(>= %s %s)", ncap, newLen))
	res := e.define("app", "Slice", fmt.Sprintf("(ite %s (mkSlice (sref %s) (soff %s) %s (scap %s)) (mkSlice %s 0 %s %s))", inplace, s, s, newLen, s, fresh, newLen, ncap))
	// new backing content of the target object
	tgt := "(sref " + res + ")"
	{
		// appending nothing writes nothing
		saved := x.curReach
		x.curReach = and(saved, "(> "+n+" 0)")
		x.writeTarget(tgt, x.describe(args[0])+"[append]", ci.Pos())
		x.curReach = saved
	}
	off := "(soff " + res + ")"
	oldArr := fmt.Sprintf("(select %s (sref %s))", h, s)
	srcArr := fmt.Sprintf("(select %s (sref %s))", h, t)
	if knownN > 0 && knownN <= 4 {
		// explicit stores for the appended cells; copy of the old prefix when reallocating
		na := e.declare("apparr", "(Array Int "+es+")")
		e.assume(fmt.Sprintf("(forall ((j Int)) (! (=> (and (<= 0 j) (< j (slen %s))) (= (select %s j) (select %s (+ (soff %s) j)))) :pattern ((select %s j))))", s, na, oldArr, s, na))
		base := fmt.Sprintf("(ite %s %s %s)", inplace, oldArr, na)
		arr := base
		for j := 0; j < knownN; j++ {
			arr = fmt.Sprintf("(store %s (+ %s (slen %s) %d) (select %s (+ (soff %s) %d)))", arr, off, s, j, srcArr, t, j)
		}
		e.set(st, f, fmt.Sprintf("(store %s %s %s)", h, tgt, arr))
		return res
	}
	na := e.declare("apparr", "(Array Int "+es+")")
	// quantified over the result index
	e.assume(fmt.Sprintf("(forall ((j Int)) (! (= (select %s j) (ite (and (<= (+ %s (slen %s)) j) (< j (+ %s %s))) (select %s (+ (soff %s) (- j (+ %s (slen %s))))) (ite %s (select %s j) (ite (and (<= 0 j) (< j (slen %s))) (select %s (+ (soff %s) j)) %s)))) :pattern ((select %s j))))",
		na, off, s, off, newLen, srcArr, t, off, s, inplace, oldArr, s, oldArr, s, e.S.zero(sl.Elem()), na))
	e.set(st, f, fmt.Sprintf("(store %s %s %s)", h, tgt, na))
	return res
}

// famOfValue: the base heap family of the object a value refers to.
func famOfValue(tv TV) string {
	t, ok := tv.Ty.(types.Type)
	if !ok {
		return ""
	}
	switch u := t.Underlying().(type) {
	case *types.Pointer:
		if at, ok := u.Elem().Underlying().(*types.Array); ok {
			return famElem(at.Elem())
		}
		return famPtr(u.Elem())
	case *types.Map:
		return famMap(t)
	case *types.Slice:
		return famElem(u.Elem())
	}
	return ""
}

// ghostGet reads a ghost variable, declaring its (unknown) entry value on first use.
func (x *fx) ghostGet(st *State, key, sort string) Term {
	if t, ok := st.ghost[key]; ok {
		return t
	}
	e := x.e
	if t, ok := e.ghostEntry[key]; ok {
		return t
	}
	e.famSort["ghost:"+key] = sort
	t := e.declare("ghost:"+key, sort)
	e.ghostEntry[key] = t
	return t
}

// producedBy: v is the result of a call of the named function made in this
// function (possibly through a local variable cell that is only ever assigned such results).
func (x *fx) producedBy(v ssa.Value, producer string, depth int) bool {
	if depth > 4 {
		return false
	}
	switch t := v.(type) {
	case *ssa.Call:
		if f := t.Call.StaticCallee(); f != nil {
			full := f.Name()
			if f.Pkg != nil {
				full = f.Pkg.Pkg.Name() + "." + f.Name()
			}
			return full == producer || f.Name() == producer
		}
	case *ssa.UnOp:
		if al, ok := t.X.(*ssa.Alloc); ok {
			n := 0
			for _, r := range *al.Referrers() {
				if st, ok := r.(*ssa.Store); ok && st.Addr == ssa.Value(al) {
					n++
					if !x.producedBy(st.Val, producer, depth+1) {
						return false
					}
				}
			}
			return n > 0
		}
	case *ssa.Phi:
		for _, ed := range t.Edges {
			if !x.producedBy(ed, producer, depth+1) {
				return false
			}
		}
		return len(t.Edges) > 0
	}
	return false
}

// fnRecovers: fn defers a function literal that calls recover().
func fnRecovers(fn *ssa.Function) bool {
	for _, b := range fn.Blocks {
		for _, in := range b.Instrs {
			d, ok := in.(*ssa.Defer)
			if !ok {
				continue
			}
			var lit *ssa.Function
			switch v := d.Call.Value.(type) {
			case *ssa.MakeClosure:
				lit, _ = v.Fn.(*ssa.Function)
			case *ssa.Function:
				lit = v
			}
			if lit == nil {
				continue
			}
			for _, lb := range lit.Blocks {
				for _, li := range lb.Instrs {
					if c, ok := li.(*ssa.Call); ok {
						if bi, ok := c.Call.Value.(*ssa.Builtin); ok && bi.Name() == "recover" {
							return true
						}
					}
				}
			}
		}
	}
	return false
}
