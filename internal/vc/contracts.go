package vc

import (
	"bufio"
	"fmt"
	"os"
	"regexp"
	"strconv"
	"strings"
)

// Clause is one requires/ensures/invariant/decreases/assert clause.
type Clause struct {
	Kind    string // requires | ensures | invariant | decreases
	Props   []string
	Profile string // "" = all profiles
	Label   string
	Text    string
	Expr    Expr
	Loop    int
	File    string
	Line    int
}

func (c *Clause) HasProp(p string) bool {
	if p == "" {
		return true
	}
	if len(c.Props) == 0 {
		return true // untagged clauses support every property
	}
	for _, q := range c.Props {
		if q == p {
			return true
		}
	}
	return false
}

type GhostAdd struct {
	Set  string
	Expr Expr
	Text string
}

// ArgFrom: every call of Callee passes, as argument Arg, the result of a call of Producer made in the same function.
type ArgFrom struct {
	Props            []string
	Callee, Producer string
	Arg              int
	Line             int
}

type LetDef struct {
	Name string
	Text string
	Expr Expr
}

// ModClause is one `modifies` clause (object-level frame).
type ModClause struct {
	Props   []string
	Profile string
	Exprs   []Expr // empty = modifies nothing
	Since   Expr   // modifies since(mark): anything allocated at or after mark may change, nothing older
	Text    string
}

// WritesClause returns the writes clause applicable under the given profile.
func (fc *FuncContract) WritesClause(profile string) *ModClause {
	var generic *ModClause
	for _, m := range fc.Writes {
		if m.Profile == profile && profile != "" {
			return m
		}
		if m.Profile == "" {
			generic = m
		}
	}
	return generic
}

// Mod returns the modifies clause applicable under the given profile.
func (fc *FuncContract) Mod(profile string) *ModClause {
	var generic *ModClause
	for _, m := range fc.Mods {
		if m.Profile == profile && profile != "" {
			return m
		}
		if m.Profile == "" {
			generic = m
		}
	}
	return generic
}

// GhostFn: an integer ghost function defined point-wise, one point per loop
// iteration: at the head of the iteration, NAME(Idx) is defined as Val.
type GhostFn struct {
	Ty       string // "" (int) or "string"
	Name     string
	Idx, Val Expr
	Text     string
}

// KeyFn: `loop N keyfn NAME = expr` - for a map-range loop that is not nested in
// another loop: NAME(k), for the key k of an iteration, is the value of expr at
// the start of that iteration (every key is visited at most once, so the points
// never clash). It is the Skolem function of "there is a position at which k
// was put".
type KeyFn struct {
	Name string
	Val  Expr
	Text string
}

type LoopContract struct {
	GhostFns    []*GhostFn
	KeyFns      []*KeyFn
	Invariants  []*Clause
	Decreases   *Clause
	HasModifies bool
	Modifies    []Expr
	ModText     string
	ModProps    []string
}

// FuncContract is the contract block of one function (or interface method,
// function signature, external function).
type FuncContract struct {
	Key     string
	Kind    string // func | iface | sig | extern
	Pkg     string // short package of the contract file
	Params  []string
	Returns []string
	Safety  []string

	Requires []*Clause
	Ensures  []*Clause

	Mods   []*ModClause
	Writes []*ModClause // write-freedom clauses: pre-existing objects that may be written at all (even with equal values)

	Loops        map[int]*LoopContract
	Inline       bool
	Trusted      bool
	TrustedFrame bool // the modifies clause is assumed (no frame / write-target obligations); everything else is checked
	Pure         bool // no effects at all (extern stubs)
	NoAlloc      bool
	Canon        []string          // properties owning the canonicalisation-stability obligations of the type tests in this function
	MayPanic     bool              // the call may panic (it runs code of the program under the interpreter): a call site must be under a deferred recover
	Deferred     bool              // when started with `go`, the function takes effect only after the spawning activation has returned
	Recovered    bool              // explicit panics in this function are caught by a deferred recover up the (trusted) call chain
	Opaque       bool              // do not inline even if loop free: treat by contract only
	CallsAs      map[string]string // source text of callee expr -> contract key
	Logicals     []QVar
	Lets         []*LetDef            // names defined from the parameters at entry
	GhostSets    []string             // ghost sets of strings declared (empty at entry) by this function
	GhostAdds    []*GhostAdd          // callee side: after the preconditions, add a value to a ghost set of the caller
	Across       map[string][]*Clause // invariants over locals that hold across calls of the named callee (callbacks preserve them)
	OnWrite      map[string][]*Clause // predicates over `value` for every write into the described map
	ArgFrom      []*ArgFrom
	CallPre      map[string][]*Clause // callpre CALLEE: predicate over arg0..argN and the caller's names, an obligation before every direct call of CALLEE
	Logged       bool
	File         string
	Line         int
	used         bool
}

type SpecFn struct {
	Name   string
	Params []string
	Body   Expr
	Text   string
}

type GlobalInv struct {
	Pkg    string
	Name   string
	Clause *Clause
}

// AtomicField: a struct field that may only be accessed through sync/atomic.
type AtomicField struct {
	Pkg, Type, Field string
	Props            []string
	File             string
	Line             int
}

type ContractSet struct {
	AtomicFields []*AtomicField
	JSONForms    []*JSONForm
	GuardedBys   []*GuardedBy
	Funcs        map[string]*FuncContract
	Specs        map[string]*SpecFn
	GlobalInvs   map[string][]*GlobalInv // by <shortpkg>.<global name>
	Files        []string
}

func NewContractSet() *ContractSet {
	return &ContractSet{Funcs: map[string]*FuncContract{}, Specs: map[string]*SpecFn{}, GlobalInvs: map[string][]*GlobalInv{}}
}

// Mentions reports whether any clause of the contract is tagged with prop.
func (fc *FuncContract) Mentions(prop string) bool {
	has := func(ps []string) bool {
		for _, p := range ps {
			if p == prop {
				return true
			}
		}
		return false
	}
	if has(fc.Safety) || has(fc.Canon) {
		return true
	}
	for _, m := range fc.Mods {
		if has(m.Props) {
			return true
		}
	}
	for _, m := range fc.Writes {
		if has(m.Props) {
			return true
		}
	}
	for _, c := range fc.Requires {
		if has(c.Props) {
			return true
		}
	}
	for _, c := range fc.Ensures {
		if has(c.Props) {
			return true
		}
	}
	for _, l := range fc.Loops {
		for _, c := range l.Invariants {
			if has(c.Props) {
				return true
			}
		}
		if l.Decreases != nil && has(l.Decreases.Props) {
			return true
		}
	}
	for _, cs := range fc.OnWrite {
		for _, c := range cs {
			if has(c.Props) {
				return true
			}
		}
	}
	for _, cs := range fc.Across {
		for _, c := range cs {
			if has(c.Props) {
				return true
			}
		}
	}
	for _, cs := range fc.CallPre {
		for _, c := range cs {
			if has(c.Props) {
				return true
			}
		}
	}
	for _, a := range fc.ArgFrom {
		if has(a.Props) {
			return true
		}
	}
	return false
}

var tagRe = regexp.MustCompile(`^\[([^\]]*)\]\s*`)
var labelRe = regexp.MustCompile(`^([A-Za-z_][A-Za-z0-9_\-]*):\s+`)
var headRe = regexp.MustCompile(`^(func|iface|sig|extern|spec|globalinv|atomicfield|guardedby|jsonform)\s+(.*)$`)
var clauseKw = map[string]bool{"returns": true, "safety": true, "requires": true, "ensures": true, "modifies": true, "writes": true,
	"loop": true, "let": true, "across": true, "ghostset": true, "ghostadd": true, "onwrite": true, "callpre": true, "argfrom": true, "inline": true, "trusted": true, "trustedframe": true, "pure": true, "calls": true, "logical": true, "opaque": true, "recovered": true, "maypanic": true, "deferred": true, "canon": true, "logged": true, "noalloc": true}

func parseTags(s string) (props []string, profile string, rest string) {
	m := tagRe.FindStringSubmatch(s)
	if m == nil {
		return nil, "", s
	}
	rest = s[len(m[0]):]
	body := m[1]
	parts := strings.Split(body, ";")
	for _, p := range strings.Split(parts[0], ",") {
		p = strings.TrimSpace(p)
		if p != "" {
			props = append(props, p)
		}
	}
	for _, q := range parts[1:] {
		q = strings.TrimSpace(q)
		if strings.HasPrefix(q, "profile=") {
			profile = strings.TrimPrefix(q, "profile=")
		}
	}
	return
}

type rawClause struct {
	text string
	line int
}

// ParseFile reads one contract file. pkg is the short package path used to
// qualify `func` keys.
func (cs *ContractSet) ParseFile(path, pkg string) error {
	f, err := os.Open(path)
	if err != nil {
		return err
	}
	defer f.Close()
	cs.Files = append(cs.Files, path)
	sc := bufio.NewScanner(f)
	sc.Buffer(make([]byte, 1<<20), 1<<20)
	var cur *FuncContract
	var curSpec *SpecFn
	var pending *rawClause
	lineNo := 0
	flush := func() error {
		if pending == nil {
			return nil
		}
		rc := pending
		pending = nil
		if curSpec != nil {
			curSpec.Text += " " + rc.text
			return nil
		}
		if cur == nil {
			return fmt.Errorf("%s:%d: clause outside a contract block", path, rc.line)
		}
		return cs.addClause(cur, rc.text, path, rc.line)
	}
	finishSpec := func() error {
		if curSpec == nil {
			return nil
		}
		ex, err := ParseExpr(curSpec.Text)
		if err != nil {
			return fmt.Errorf("%s: spec %s: %v", path, curSpec.Name, err)
		}
		curSpec.Body = ex
		cs.Specs[curSpec.Name] = curSpec
		curSpec = nil
		return nil
	}
	for sc.Scan() {
		lineNo++
		line := sc.Text()
		t := strings.TrimSpace(line)
		if !strings.HasPrefix(t, "//@") {
			continue
		}
		t = strings.TrimSpace(strings.TrimPrefix(t, "//@"))
		if i := strings.Index(t, " -- "); i >= 0 {
			t = strings.TrimSpace(t[:i])
		}
		if strings.HasPrefix(t, "-- ") || t == "--" {
			continue
		}
		if t == "" {
			continue
		}
		if m := headRe.FindStringSubmatch(t); m != nil {
			if err := flush(); err != nil {
				return err
			}
			if err := finishSpec(); err != nil {
				return err
			}
			kind, rest := m[1], strings.TrimSpace(m[2])
			if kind == "atomicfield" {
				props, _, r := parseTags(rest)
				parts := strings.Split(strings.TrimSpace(r), ".")
				if len(parts) != 2 {
					return fmt.Errorf("%s:%d: atomicfield [props] Type.field", path, lineNo)
				}
				cs.AtomicFields = append(cs.AtomicFields, &AtomicField{Pkg: pkg, Type: parts[0], Field: parts[1], Props: props, File: path, Line: lineNo})
				cur = nil
				continue
			}
			if kind == "jsonform" {
				jf, err := parseJSONForm(pkg, rest, path, lineNo)
				if err != nil {
					return err
				}
				cs.JSONForms = append(cs.JSONForms, jf)
				cur = nil
				continue
			}
			if kind == "guardedby" {
				// guardedby [props] Type.field by lockfield
				props, _, r := parseTags(rest)
				f := strings.Fields(r)
				if len(f) != 3 || f[1] != "by" || len(strings.Split(f[0], ".")) != 2 {
					return fmt.Errorf("%s:%d: guardedby [props] Type.field by lockfield", path, lineNo)
				}
				tf := strings.Split(f[0], ".")
				cs.GuardedBys = append(cs.GuardedBys, &GuardedBy{Pkg: pkg, Type: tf[0], Field: tf[1], Lock: f[2], Props: props, File: path, Line: lineNo})
				cur = nil
				continue
			}
			if kind == "globalinv" {
				// globalinv Name: expr
				i := strings.Index(rest, ":")
				if i < 0 {
					return fmt.Errorf("%s:%d: globalinv NAME: expr", path, lineNo)
				}
				name := strings.TrimSpace(rest[:i])
				ex, err := ParseExpr(rest[i+1:])
				if err != nil {
					return fmt.Errorf("%s:%d: %v", path, lineNo, err)
				}
				k := pkg + "." + name
				cs.GlobalInvs[k] = append(cs.GlobalInvs[k], &GlobalInv{Pkg: pkg, Name: name, Clause: &Clause{Kind: "globalinv", Text: strings.TrimSpace(rest[i+1:]), Expr: ex, File: path, Line: lineNo}})
				cur = nil
				continue
			}
			if kind == "spec" {
				// spec name(a, b) = expr
				i := strings.Index(rest, "(")
				j := strings.Index(rest, ")")
				k := strings.Index(rest, "=")
				if i < 0 || j < i || k < j {
					return fmt.Errorf("%s:%d: bad spec header", path, lineNo)
				}
				sf := &SpecFn{Name: strings.TrimSpace(rest[:i])}
				for _, p := range strings.Split(rest[i+1:j], ",") {
					if p = strings.TrimSpace(p); p != "" {
						sf.Params = append(sf.Params, p)
					}
				}
				sf.Text = strings.TrimSpace(rest[k+1:])
				curSpec = sf
				cur = nil
				continue
			}
			fc := &FuncContract{Kind: kind, Pkg: pkg, Loops: map[int]*LoopContract{}, CallsAs: map[string]string{}, File: path, Line: lineNo}
			name := rest
			if kind != "func" {
				// name(params) [returns (a, b)]; the name may start with a parenthesised receiver
				skip := 0
				if strings.HasPrefix(rest, "(") {
					skip = strings.Index(rest, ")") + 1
				}
				if i := strings.Index(rest[skip:], "("); i >= 0 {
					i += skip
					name = strings.TrimSpace(rest[:i])
					j := i + strings.Index(rest[i:], ")")
					if j < i {
						return fmt.Errorf("%s:%d: bad header", path, lineNo)
					}
					for _, p := range strings.Split(rest[i+1:j], ",") {
						if p = strings.TrimSpace(p); p != "" {
							fc.Params = append(fc.Params, p)
						}
					}
					tail := strings.TrimSpace(rest[j+1:])
					if strings.HasPrefix(tail, "returns") {
						fc.Returns = splitNames(strings.TrimPrefix(tail, "returns"))
					}
				}
			} else if i := strings.Index(rest, " returns "); i >= 0 {
				name = strings.TrimSpace(rest[:i])
				fc.Returns = splitNames(rest[i+len(" returns "):])
			}
			switch kind {
			case "func":
				fc.Key = pkg + "." + name
			case "iface":
				fc.Key = "iface:" + name
			case "sig":
				fc.Key = "sig:" + name
			case "extern":
				fc.Key = "extern:" + name
			}
			if _, dup := cs.Funcs[fc.Key]; dup {
				return fmt.Errorf("%s:%d: duplicate contract for %s", path, lineNo, fc.Key)
			}
			cs.Funcs[fc.Key] = fc
			cur = fc
			continue
		}
		// clause or continuation
		first := t
		if i := strings.IndexAny(t, " [\t"); i >= 0 {
			first = t[:i]
		}
		if clauseKw[first] {
			if err := flush(); err != nil {
				return err
			}
			pending = &rawClause{text: t, line: lineNo}
		} else {
			if pending == nil {
				if curSpec != nil {
					curSpec.Text += " " + t
					continue
				}
				return fmt.Errorf("%s:%d: continuation without clause: %q", path, lineNo, t)
			}
			pending.text += " " + t
		}
	}
	if err := flush(); err != nil {
		return err
	}
	return finishSpec()
}

func splitNames(s string) []string {
	s = strings.TrimSpace(s)
	s = strings.TrimPrefix(s, "(")
	s = strings.TrimSuffix(s, ")")
	var out []string
	for _, p := range strings.Split(s, ",") {
		if p = strings.TrimSpace(p); p != "" {
			out = append(out, p)
		}
	}
	return out
}

func (cs *ContractSet) addClause(fc *FuncContract, t, file string, line int) error {
	kw := t
	rest := ""
	if i := strings.IndexAny(t, " [\t"); i >= 0 {
		kw = t[:i]
		rest = strings.TrimSpace(t[i:])
	}
	mk := func(kind, rest string, loop int) (*Clause, error) {
		props, profile, r := parseTags(rest)
		label := ""
		if m := labelRe.FindStringSubmatch(r); m != nil {
			label = m[1]
			r = r[len(m[0]):]
		}
		ex, err := ParseExpr(r)
		if err != nil {
			return nil, fmt.Errorf("%s:%d: %v in %q", file, line, err, r)
		}
		return &Clause{Kind: kind, Props: props, Profile: profile, Label: label, Text: r, Expr: ex, Loop: loop, File: file, Line: line}, nil
	}
	switch kw {
	case "returns":
		fc.Returns = splitNames(rest)
	case "safety":
		fc.Safety = append(fc.Safety, splitNames(rest)...)
	case "inline":
		fc.Inline = true
	case "trusted":
		fc.Trusted = true
	case "trustedframe":
		fc.TrustedFrame = true
	case "pure":
		fc.Pure = true
	case "noalloc":
		fc.NoAlloc = true
	case "opaque":
		fc.Opaque = true
	case "recovered":
		fc.Recovered = true
	case "maypanic":
		fc.MayPanic = true
	case "deferred":
		fc.Deferred = true
	case "canon":
		fc.Canon = append(fc.Canon, splitNames(rest)...)
	case "logged":
		fc.Logged = true
	case "calls":
		// calls <source text> as <contract key>
		i := strings.LastIndex(rest, " as ")
		if i < 0 {
			return fmt.Errorf("%s:%d: calls needs 'as'", file, line)
		}
		fc.CallsAs[strings.TrimSpace(rest[:i])] = strings.TrimSpace(rest[i+4:])
	case "across", "onwrite", "callpre":
		// across <callee>: expr   |   onwrite <map description>: expr over `value`
		props, profile, r := parseTags(rest)
		i := strings.Index(r, ":")
		if i < 0 {
			return fmt.Errorf("%s:%d: %s NAME: expr", file, line, kw)
		}
		ex, err := ParseExpr(r[i+1:])
		if err != nil {
			return fmt.Errorf("%s:%d: %v", file, line, err)
		}
		c := &Clause{Kind: kw, Props: props, Profile: profile, Label: strings.TrimSpace(r[:i]), Text: strings.TrimSpace(r[i+1:]), Expr: ex, File: file, Line: line}
		if kw == "callpre" {
			if fc.CallPre == nil {
				fc.CallPre = map[string][]*Clause{}
			}
			fc.CallPre[c.Label] = append(fc.CallPre[c.Label], c)
		} else if kw == "across" {
			if fc.Across == nil {
				fc.Across = map[string][]*Clause{}
			}
			fc.Across[c.Label] = append(fc.Across[c.Label], c)
		} else {
			if fc.OnWrite == nil {
				fc.OnWrite = map[string][]*Clause{}
			}
			fc.OnWrite[c.Label] = append(fc.OnWrite[c.Label], c)
		}
	case "ghostset":
		fc.GhostSets = append(fc.GhostSets, splitNames(rest)...)
	case "ghostadd":
		parts := strings.SplitN(strings.TrimSpace(rest), " ", 2)
		if len(parts) != 2 {
			return fmt.Errorf("%s:%d: ghostadd SET expr", file, line)
		}
		ex, err := ParseExpr(parts[1])
		if err != nil {
			return fmt.Errorf("%s:%d: %v", file, line, err)
		}
		fc.GhostAdds = append(fc.GhostAdds, &GhostAdd{Set: parts[0], Expr: ex, Text: parts[1]})
	case "argfrom":
		props, _, r := parseTags(rest)
		parts := strings.Fields(r)
		if len(parts) != 2 || !strings.Contains(parts[0], "#") {
			return fmt.Errorf("%s:%d: argfrom CALLEE#N PRODUCER", file, line)
		}
		cp := strings.SplitN(parts[0], "#", 2)
		n, _ := strconv.Atoi(cp[1])
		fc.ArgFrom = append(fc.ArgFrom, &ArgFrom{Props: props, Callee: cp[0], Arg: n, Producer: parts[1], Line: line})
	case "let":
		i := strings.Index(rest, "=")
		if i < 0 {
			return fmt.Errorf("%s:%d: let NAME = expr", file, line)
		}
		ex, err := ParseExpr(rest[i+1:])
		if err != nil {
			return fmt.Errorf("%s:%d: %v", file, line, err)
		}
		fc.Lets = append(fc.Lets, &LetDef{Name: strings.TrimSpace(rest[:i]), Text: strings.TrimSpace(rest[i+1:]), Expr: ex})
	case "logical":
		parts := strings.Fields(rest)
		if len(parts) < 2 {
			return fmt.Errorf("%s:%d: logical NAME TYPE", file, line)
		}
		fc.Logicals = append(fc.Logicals, QVar{Name: parts[0], Type: strings.Join(parts[1:], " ")})
	case "requires", "ensures":
		c, err := mk(kw, rest, -1)
		if err != nil {
			return err
		}
		if kw == "requires" {
			fc.Requires = append(fc.Requires, c)
		} else {
			fc.Ensures = append(fc.Ensures, c)
		}
	case "writes":
		props, profile, r := parseTags(rest)
		mc := &ModClause{Props: props, Profile: profile, Text: r}
		if strings.TrimSpace(r) != "nothing" {
			for _, part := range splitTop(r, ',') {
				ex, err := ParseExpr(part)
				if err != nil {
					return fmt.Errorf("%s:%d: %v", file, line, err)
				}
				mc.Exprs = append(mc.Exprs, ex)
			}
		}
		fc.Writes = append(fc.Writes, mc)
	case "modifies":
		props, profile, r := parseTags(rest)
		mc := &ModClause{Props: props, Profile: profile, Text: r}
		if rs := strings.TrimSpace(r); strings.HasPrefix(rs, "since(") && strings.HasSuffix(rs, ")") {
			ex, err := ParseExpr(rs[len("since(") : len(rs)-1])
			if err != nil {
				return fmt.Errorf("%s:%d: %v", file, line, err)
			}
			mc.Since = ex
		} else if rs != "nothing" {
			for _, part := range splitTop(r, ',') {
				ex, err := ParseExpr(part)
				if err != nil {
					return fmt.Errorf("%s:%d: %v", file, line, err)
				}
				mc.Exprs = append(mc.Exprs, ex)
			}
		}
		fc.Mods = append(fc.Mods, mc)
	case "loop":
		parts := strings.SplitN(rest, " ", 3)
		if len(parts) < 3 {
			return fmt.Errorf("%s:%d: loop N <clause>", file, line)
		}
		n, err := strconv.Atoi(parts[0])
		if err != nil {
			return fmt.Errorf("%s:%d: loop ordinal: %v", file, line, err)
		}
		lc := fc.Loops[n]
		if lc == nil {
			lc = &LoopContract{}
			fc.Loops[n] = lc
		}
		sub := strings.TrimSpace(parts[1] + " " + parts[2])
		skw := sub
		srest := ""
		if i := strings.IndexAny(sub, " [\t"); i >= 0 {
			skw = sub[:i]
			srest = strings.TrimSpace(sub[i:])
		}
		switch skw {
		case "invariant":
			c, err := mk("invariant", srest, n)
			if err != nil {
				return err
			}
			lc.Invariants = append(lc.Invariants, c)
		case "decreases":
			c, err := mk("decreases", srest, n)
			if err != nil {
				return err
			}
			lc.Decreases = c
		case "keyfn":
			k := strings.Index(srest, "=")
			if k < 0 {
				return fmt.Errorf("%s:%d: keyfn NAME = expr", file, line)
			}
			val, err := ParseExpr(srest[k+1:])
			if err != nil {
				return fmt.Errorf("%s:%d: %v", file, line, err)
			}
			lc.KeyFns = append(lc.KeyFns, &KeyFn{Name: strings.TrimSpace(srest[:k]), Val: val, Text: srest})
		case "ghostfn":
			// ghostfn NAME(idx) = value
			i, j, k := strings.Index(srest, "("), strings.Index(srest, ")"), strings.Index(srest, "=")
			if i < 0 || j < i || k < j {
				return fmt.Errorf("%s:%d: ghostfn NAME(idx) = expr", file, line)
			}
			idx, err := ParseExpr(srest[i+1 : j])
			if err != nil {
				return fmt.Errorf("%s:%d: %v", file, line, err)
			}
			val, err := ParseExpr(srest[k+1:])
			if err != nil {
				return fmt.Errorf("%s:%d: %v", file, line, err)
			}
			gty := strings.TrimSpace(srest[j+1 : k]) // optional result type between ")" and "=": string (default int)
			lc.GhostFns = append(lc.GhostFns, &GhostFn{Name: strings.TrimSpace(srest[:i]), Idx: idx, Val: val, Text: srest, Ty: gty})
		case "modifies":
			props, _, r := parseTags(srest)
			lc.HasModifies = true
			lc.ModProps = props
			lc.ModText = r
			if strings.TrimSpace(r) != "nothing" {
				for _, part := range splitTop(r, ',') {
					ex, err := ParseExpr(part)
					if err != nil {
						return fmt.Errorf("%s:%d: %v", file, line, err)
					}
					lc.Modifies = append(lc.Modifies, ex)
				}
			}
		default:
			return fmt.Errorf("%s:%d: unknown loop clause %q", file, line, skw)
		}
	default:
		return fmt.Errorf("%s:%d: unknown clause %q", file, line, kw)
	}
	return nil
}

// splitTop splits s at sep occurring at bracket depth 0.
func splitTop(s string, sep byte) []string {
	var out []string
	depth := 0
	start := 0
	inStr := false
	for i := 0; i < len(s); i++ {
		c := s[i]
		if inStr {
			if c == '\\' {
				i++
			} else if c == '"' {
				inStr = false
			}
			continue
		}
		switch c {
		case '"':
			inStr = true
		case '(', '[', '{':
			depth++
		case ')', ']', '}':
			depth--
		default:
			if c == sep && depth == 0 {
				out = append(out, strings.TrimSpace(s[start:i]))
				start = i + 1
			}
		}
	}
	out = append(out, strings.TrimSpace(s[start:]))
	return out
}

// SweepContract: an empty contract (no precondition) whose generated safety obligations carry the tag SWEEP.
func SweepContract(key string) *FuncContract {
	pkg := key
	if i := strings.IndexAny(key, ".("); i >= 0 {
		pkg = key[:i]
	}
	return &FuncContract{Key: key, Kind: "func", Pkg: pkg, Safety: []string{"SWEEP"}, Loops: map[int]*LoopContract{}, CallsAs: map[string]string{}}
}
