package vc

import (
	"go/types"
	"strings"

	"golang.org/x/tools/go/ssa"
)

// Effects is a syntactic over-approximation of what a piece of code may do to
// the heap, at the granularity of heap families (type-based).
type Effects struct {
	All      bool            // unknown code: any old object may be modified
	AllocAll bool            // may allocate in any family (but writes follow Writes)
	Writes   map[string]famInfo // base families with writes that may hit pre-existing objects
	Allocs   map[string]famInfo // base families with allocations
	Why      string
}

// famInfo lets the encoder register a family it has only seen by name.
type famInfo struct {
	kind byte // 'H' pointer cell, 'E' slice/array element, 'M' map, 'C' closure/chan (no heap)
	t    types.Type
}

func newEffects() *Effects { return &Effects{Writes: map[string]famInfo{}, Allocs: map[string]famInfo{}} }

func (a *Effects) add(b *Effects) {
	if b.All {
		a.All = true
		if a.Why == "" {
			a.Why = b.Why
		}
	}
	if b.AllocAll {
		a.AllocAll = true
	}
	for k, v := range b.Writes {
		a.Writes[k] = v
	}
	for k, v := range b.Allocs {
		a.Allocs[k] = v
	}
}

func (a *Effects) none() bool {
	return !a.All && !a.AllocAll && len(a.Writes) == 0 && len(a.Allocs) == 0
}

type effCtx struct {
	P       *Program
	profile string
	memo    map[*ssa.Function]*Effects
	busy    map[*ssa.Function]bool
}

func (c *effCtx) ofFunc(fn *ssa.Function) *Effects {
	if e, ok := c.memo[fn]; ok {
		return e
	}
	if c.busy[fn] {
		return &Effects{All: true, Why: "recursion through " + fn.Name(), Writes: map[string]famInfo{}, Allocs: map[string]famInfo{}}
	}
	if fn.Pkg == nil || !strings.HasPrefix(fn.Pkg.Pkg.Path(), ModulePath) {
		if fc := c.P.Contracts.Funcs[externKey(fn)]; fc != nil {
			return c.ofContract(fc, externKey(fn))
		}
	}
	if fn.Blocks == nil {
		return c.ofExternal(fn)
	}
	// a trusted/pure contract on a repo function overrides the body
	if fc := c.P.Contracts.Funcs[FuncKey(fn)]; fc != nil && fc.Pure {
		e := newEffects()
		c.memo[fn] = e
		return e
	}
	c.busy[fn] = true
	e := c.ofBlocks(fn, fn.Blocks)
	delete(c.busy, fn)
	c.memo[fn] = e
	return e
}

func externKey(fn *ssa.Function) string {
	if fn.Signature.Recv() != nil {
		return "extern:" + fn.RelString(nil)
	}
	if fn.Pkg != nil {
		return "extern:" + fn.Pkg.Pkg.Path() + "." + fn.Name()
	}
	return "extern:" + fn.String()
}

func (c *effCtx) ofExternal(fn *ssa.Function) *Effects {
	e := newEffects()
	if fc := c.P.Contracts.Funcs[externKey(fn)]; fc != nil {
		return c.ofContract(fc, externKey(fn))
	}
	e.All = true
	e.Why = "external function without stub: " + fn.String()
	return e
}

// ofContract gives the effects of a call described only by a contract
// (interface method, function signature, external).
func (c *effCtx) ofContract(fc *FuncContract, what string) *Effects {
	e := newEffects()
	if fc.Pure {
		return e
	}
	if fc.HasModifies && (fc.ModProfile == "" || fc.ModProfile == c.profile) {
		if !fc.NoAlloc {
			e.AllocAll = true
		}
		if len(fc.Modifies) > 0 {
			// object-level list; family-level: unknown which, so all families may be written,
			// refined at the call site by the modifies list.
			e.All = true
			e.Why = "modifies list of " + what
		}
		return e
	}
	e.All = true
	e.Why = "no frame known for " + what
	return e
}

func addrRootFam(v ssa.Value) (string, famInfo, bool) {
	switch a := v.(type) {
	case *ssa.FieldAddr:
		// &x.f : x is a pointer to struct (possibly itself an interior pointer)
		switch a.X.(type) {
		case *ssa.FieldAddr, *ssa.IndexAddr:
			return addrRootFam(a.X)
		}
		pt, ok := a.X.Type().Underlying().(*types.Pointer)
		if !ok {
			return "", famInfo{}, false
		}
		return famPtr(pt.Elem()), famInfo{'H', pt.Elem()}, true
	case *ssa.IndexAddr:
		switch xt := a.X.Type().Underlying().(type) {
		case *types.Slice:
			return famElem(xt.Elem()), famInfo{'E', xt.Elem()}, true
		case *types.Pointer:
			if at, ok := xt.Elem().Underlying().(*types.Array); ok {
				switch a.X.(type) {
				case *ssa.FieldAddr, *ssa.IndexAddr:
					return addrRootFam(a.X)
				}
				return famElem(at.Elem()), famInfo{'E', at.Elem()}, true
			}
		}
		return "", famInfo{}, false
	}
	pt, ok := v.Type().Underlying().(*types.Pointer)
	if !ok {
		return "", famInfo{}, false
	}
	if at, ok := pt.Elem().Underlying().(*types.Array); ok {
		return famElem(at.Elem()), famInfo{'E', at.Elem()}, true
	}
	return famPtr(pt.Elem()), famInfo{'H', pt.Elem()}, true
}

func (c *effCtx) ofBlocks(fn *ssa.Function, blocks []*ssa.BasicBlock) *Effects {
	e := newEffects()
	for _, b := range blocks {
		for _, in := range b.Instrs {
			switch i := in.(type) {
			case *ssa.Store:
				if f, fi, ok := addrRootFam(i.Addr); ok {
					e.Writes[f] = fi
				} else {
					e.All = true
					e.Why = "store through unclassified address in " + fn.Name()
				}
			case *ssa.MapUpdate:
				e.Writes[famMap(i.Map.Type())] = famInfo{'M', i.Map.Type()}
			case *ssa.Alloc:
				pt := i.Type().Underlying().(*types.Pointer)
				if at, ok := pt.Elem().Underlying().(*types.Array); ok {
					e.Allocs[famElem(at.Elem())] = famInfo{'E', at.Elem()}
				} else {
					e.Allocs[famPtr(pt.Elem())] = famInfo{'H', pt.Elem()}
				}
			case *ssa.MakeMap:
				e.Allocs[famMap(i.Type())] = famInfo{'M', i.Type()}
			case *ssa.MakeSlice:
				{
					el := i.Type().Underlying().(*types.Slice).Elem()
					e.Allocs[famElem(el)] = famInfo{'E', el}
				}
			case *ssa.MakeClosure, *ssa.MakeChan:
				// allocation counter only
				e.Allocs["closure"] = famInfo{'C', nil}
			case *ssa.Send:
				e.All = true
				e.Why = "channel send in " + fn.Name()
			case *ssa.Select:
				e.All = true
				e.Why = "select in " + fn.Name()
			case ssa.CallInstruction:
				e.add(c.ofCall(fn, i))
			}
		}
	}
	return e
}

func (c *effCtx) ofCall(fn *ssa.Function, ci ssa.CallInstruction) *Effects {
	com := ci.Common()
	e := newEffects()
	if com.IsInvoke() {
		key := ifaceKey(com)
		if fc := c.P.Contracts.Funcs[key]; fc != nil {
			return c.ofContract(fc, key)
		}
		e.All = true
		e.Why = "interface call without contract: " + key
		return e
	}
	switch cal := com.Value.(type) {
	case *ssa.Builtin:
		switch cal.Name() {
		case "append":
			if st, ok := com.Args[0].Type().Underlying().(*types.Slice); ok {
				f := famElem(st.Elem())
				e.Writes[f] = famInfo{'E', st.Elem()}
				e.Allocs[f] = famInfo{'E', st.Elem()}
			}
		case "copy":
			if st, ok := com.Args[0].Type().Underlying().(*types.Slice); ok {
				e.Writes[famElem(st.Elem())] = famInfo{'E', st.Elem()}
			}
		case "delete":
			e.Writes[famMap(com.Args[0].Type())] = famInfo{'M', com.Args[0].Type()}
		case "clear":
			e.All = true
			e.Why = "clear builtin"
		}
		return e
	case *ssa.Function:
		return c.ofFunc(cal)
	case *ssa.MakeClosure:
		return c.ofFunc(cal.Fn.(*ssa.Function))
	}
	// dynamic function value
	if fc := c.P.Contracts.Funcs[FuncKey(fn)]; fc != nil {
		if key, ok := fc.CallsAs[describeValue(fn, com.Value)]; ok {
			if sc := c.P.Contracts.Funcs[key]; sc != nil {
				return c.ofContract(sc, key)
			}
		}
	}
	e.All = true
	e.Why = "dynamic call of " + describeValue(fn, com.Value) + " in " + fn.Name()
	return e
}

// ifaceKey names the contract of an interface method call: iface:<type>.<method>
func ifaceKey(com *ssa.CallCommon) string {
	t := com.Value.Type()
	name := typeStr(t)
	return "iface:" + name + "." + com.Method.Name()
}
