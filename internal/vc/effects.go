package vc

import (
	"go/token"
	"go/types"
	"strings"

	"golang.org/x/tools/go/ssa"
)

// Effects is a syntactic over-approximation of what a piece of code may do to
// the heap, at the granularity of heap families (type-based).
type Effects struct {
	All      bool               // unknown code: any old object may be modified
	AllocAll bool               // may allocate in any family (but writes follow Writes)
	Writes   map[string]famInfo // base families with writes that may hit pre-existing objects
	Allocs   map[string]famInfo // base families with allocations
	Why      string
}

// famInfo lets the encoder register a family it has only seen by name.
type famInfo struct {
	kind byte // 'H' pointer cell, 'E' slice/array element, 'M' map, 'C' closure/chan (no heap)
	t    types.Type
}

func newEffects() *Effects {
	return &Effects{Writes: map[string]famInfo{}, Allocs: map[string]famInfo{}}
}

func (a *Effects) add(b *Effects) {
	if b.All {
		a.All = true
		if a.Why == "" {
			a.Why = b.Why
		}
	}
	if b.AllocAll {
		a.AllocAll = true
	}
	for k, v := range b.Writes {
		a.Writes[k] = v
	}
	for k, v := range b.Allocs {
		a.Allocs[k] = v
	}
}

func (a *Effects) none() bool {
	return !a.All && !a.AllocAll && len(a.Writes) == 0 && len(a.Allocs) == 0
}

type effCtx struct {
	P       *Program
	root    *FuncContract // contract of the unit being encoded
	profile string
	memo    map[*ssa.Function]*Effects
	busy    map[*ssa.Function]bool
	cyclic  bool
	logKeys map[*ssa.Function]map[string]bool
	logBody map[*ssa.Function]map[string]bool
}

func (c *effCtx) ofFunc(fn *ssa.Function) *Effects {
	if e, ok := c.memo[fn]; ok {
		return e
	}
	if c.busy[fn] {
		// recursion: the cycle's effects are the union of the bodies on it,
		// which the outermost activation accumulates
		c.cyclic = true
		return newEffects()
	}
	if fn.Pkg == nil || !strings.HasPrefix(fn.Pkg.Pkg.Path(), ModulePath) {
		if fc := c.P.Contracts.Funcs[externKey(fn)]; fc != nil {
			return c.ofContract(fc, externKey(fn), fnTypes(fn)...)
		}
	}
	if fn.Blocks == nil || fn.Pkg == nil || !strings.HasPrefix(fn.Pkg.Pkg.Path(), ModulePath) {
		return c.ofExternal(fn)
	}
	// a contract with a frame (or `pure`) summarises the body
	if fc := c.P.Contracts.Funcs[FuncKey(fn)]; fc != nil && !fc.Inline {
		if fc.Pure {
			e := newEffects()
			c.memo[fn] = e
			return e
		}
		if fc.Mod(c.profile) != nil {
			var names []string
			for _, p := range fn.Params {
				names = append(names, p.Name())
			}
			ptys := fnParamTypes(fn)
			for _, fv := range fn.FreeVars {
				names = append(names, fv.Name())
				ptys = append(ptys, fv.Type())
			}
			e := c.ofContractNamed(fc, FuncKey(fn), names, ptys)
			c.memo[fn] = e
			return e
		}
	}
	outer := len(c.busy) == 0
	c.busy[fn] = true
	e := c.ofBlocks(fn, fn.Blocks)
	delete(c.busy, fn)
	if outer || !c.cyclic {
		c.memo[fn] = e
	}
	if outer {
		c.cyclic = false
	}
	return e
}

func fnParamTypes(fn *ssa.Function) []types.Type {
	var out []types.Type
	for _, p := range fn.Params {
		out = append(out, p.Type())
	}
	return out
}

func externKey(fn *ssa.Function) string {
	if fn.Signature.Recv() != nil {
		return "extern:" + fn.RelString(nil)
	}
	if fn.Pkg != nil {
		return "extern:" + fn.Pkg.Pkg.Path() + "." + fn.Name()
	}
	return "extern:" + fn.String()
}

// defaultPureExtern: package-level functions of these standard packages do
// not change anything in the program's heap that a contract can read (they
// compute values, allocate, or write to files/loggers). Used only when there
// is no explicit stub; every use is listed among the assumptions of the run.
var purePkgs = map[string]bool{"strings": true, "strconv": true, "unicode": true, "unicode/utf8": true, "math": true, "errors": true,
	"path": true, "path/filepath": true, "html": true, "time": true, "log": true, "fmt": true, "os": true, "io": true, "io/ioutil": true, "bytes": true}

func defaultPureExtern(fn *ssa.Function) bool {
	if fn == nil || fn.Pkg == nil {
		return false
	}
	if rv := fn.Signature.Recv(); rv != nil {
		// methods of time.Time and time.Duration values (UTC, Format, Unix, Add, Sub, String, ...): value receivers, no heap effect
		if n, ok := rv.Type().(*types.Named); ok && n.Obj().Pkg() != nil && n.Obj().Pkg().Path() == "time" && (n.Obj().Name() == "Time" || n.Obj().Name() == "Duration") {
			return true
		}
		return false
	}
	pth := fn.Pkg.Pkg.Path()
	if !purePkgs[pth] {
		return false
	}
	switch pth {
	case "fmt":
		// Sscan* write through their arguments
		return !strings.HasPrefix(fn.Name(), "Sscan") && !strings.HasPrefix(fn.Name(), "Fscan") && !strings.HasPrefix(fn.Name(), "Scan")
	case "os":
		switch fn.Name() {
		case "ReadFile", "Getenv", "LookupEnv", "Stat", "Remove", "RemoveAll", "MkdirAll", "WriteFile", "Hostname", "Getpid", "Getwd":
			return true
		}
		return false
	case "io":
		return fn.Name() == "ReadAll"
	case "io/ioutil":
		switch fn.Name() {
		case "ReadFile", "ReadAll", "WriteFile", "TempDir", "TempFile", "ReadDir":
			return true
		}
		return false
	case "bytes":
		switch fn.Name() {
		case "Equal", "Compare", "Contains", "HasPrefix", "HasSuffix", "Index", "IndexByte", "TrimSpace", "Trim", "ToLower", "ToUpper", "Split", "Join", "Fields", "NewBuffer", "NewBufferString", "NewReader":
			return true
		}
		return false
	case "log":
		return !strings.HasPrefix(fn.Name(), "Set")
	}
	return true
}

func (c *effCtx) ofExternal(fn *ssa.Function) *Effects {
	e := newEffects()
	if fc := c.P.Contracts.Funcs[externKey(fn)]; fc != nil {
		return c.ofContract(fc, externKey(fn), fnTypes(fn)...)
	}
	if defaultPureExtern(fn) {
		return e
	}
	e.All = true
	e.Why = "external function without stub: " + fn.String()
	return e
}

// ofContract gives the effects of a call described only by a contract
// (interface method, function signature, external). ptypes are the types of
// the contract's parameters (receiver first for interface methods).
func (c *effCtx) ofContract(fc *FuncContract, what string, ptypes ...types.Type) *Effects {
	names := fc.Params
	if fc.Kind == "iface" && len(names) == len(ptypes)-1 {
		names = append([]string{"recv"}, names...)
	}
	return c.ofContractNamed(fc, what, names, ptypes)
}

// staticType types a modifies expression (parameter, field selections) without a state.
func staticType(ex Expr, names []string, ptypes []types.Type) types.Type {
	switch n := ex.(type) {
	case *Ident:
		for i, nm := range names {
			if nm == n.Name && i < len(ptypes) {
				return ptypes[i]
			}
		}
	case *Sel:
		t := staticType(n.X, names, ptypes)
		if t == nil {
			return nil
		}
		obj, _ := findField(t, n.Name)
		if obj != nil {
			return obj.Type()
		}
	case *Unary:
		if n.Op == "*" {
			t := staticType(n.X, names, ptypes)
			if t == nil {
				return nil
			}
			if pt, ok := t.Underlying().(*types.Pointer); ok {
				return pt.Elem()
			}
		}
	case *Index:
		t := staticType(n.X, names, ptypes)
		if t == nil {
			return nil
		}
		switch u := t.Underlying().(type) {
		case *types.Slice:
			return u.Elem()
		case *types.Map:
			return u.Elem()
		}
	}
	return nil
}

func (c *effCtx) ofContractNamed(fc *FuncContract, what string, names []string, ptypes []types.Type) *Effects {
	e := newEffects()
	if fc.Pure {
		return e
	}
	if mc := fc.Mod(c.profile); mc != nil {
		if !fc.NoAlloc {
			e.AllocAll = true
		}
		if mc.Since != nil {
			e.All = true
			e.Why = "modifies since(...) of " + what
			return e
		}
		// logical variables of the contract are typed too
		lnames, ltypes := append([]string{}, names...), append([]types.Type{}, ptypes...)
		for _, lv := range fc.Logicals {
			for path, tp := range c.P.TPkgs {
				if shortPkg(path) == fc.Pkg {
					if tv, err := types.Eval(c.P.Fset, tp.Types, token.NoPos, lv.Type); err == nil && tv.IsType() {
						lnames = append(lnames, lv.Name)
						ltypes = append(ltypes, tv.Type)
					}
				}
			}
		}
		for _, m := range mc.Exprs {
			t := staticType(m, lnames, ltypes)
			resolved := false
			if t != nil {
				switch u := t.Underlying().(type) {
				case *types.Map:
					e.Writes[famMap(t)] = famInfo{'M', t}
					resolved = true
				case *types.Pointer:
					e.Writes[famPtr(u.Elem())] = famInfo{'H', u.Elem()}
					resolved = true
				case *types.Slice:
					e.Writes[famElem(u.Elem())] = famInfo{'E', u.Elem()}
					resolved = true
				}
			}
			if !resolved {
				e.All = true
				e.Why = "modifies list of " + what + " not resolvable to families"
			}
		}
		return e
	}
	e.All = true
	e.Why = "no frame known for " + what
	return e
}

func sigTypes(sig *types.Signature, recv types.Type) []types.Type {
	var out []types.Type
	if recv != nil {
		out = append(out, recv)
	}
	for i := 0; i < sig.Params().Len(); i++ {
		out = append(out, sig.Params().At(i).Type())
	}
	return out
}

func addrRootFam(v ssa.Value) (string, famInfo, bool) {
	switch a := v.(type) {
	case *ssa.FieldAddr:
		// &x.f : x is a pointer to struct (possibly itself an interior pointer)
		switch a.X.(type) {
		case *ssa.FieldAddr, *ssa.IndexAddr:
			return addrRootFam(a.X)
		}
		pt, ok := a.X.Type().Underlying().(*types.Pointer)
		if !ok {
			return "", famInfo{}, false
		}
		return famPtr(pt.Elem()), famInfo{'H', pt.Elem()}, true
	case *ssa.IndexAddr:
		switch xt := a.X.Type().Underlying().(type) {
		case *types.Slice:
			return famElem(xt.Elem()), famInfo{'E', xt.Elem()}, true
		case *types.Pointer:
			if at, ok := xt.Elem().Underlying().(*types.Array); ok {
				switch a.X.(type) {
				case *ssa.FieldAddr, *ssa.IndexAddr:
					return addrRootFam(a.X)
				}
				return famElem(at.Elem()), famInfo{'E', at.Elem()}, true
			}
		}
		return "", famInfo{}, false
	}
	pt, ok := v.Type().Underlying().(*types.Pointer)
	if !ok {
		return "", famInfo{}, false
	}
	if at, ok := pt.Elem().Underlying().(*types.Array); ok {
		return famElem(at.Elem()), famInfo{'E', at.Elem()}, true
	}
	return famPtr(pt.Elem()), famInfo{'H', pt.Elem()}, true
}

func (c *effCtx) ofBlocks(fn *ssa.Function, blocks []*ssa.BasicBlock) *Effects {
	e := newEffects()
	for _, b := range blocks {
		for _, in := range b.Instrs {
			switch i := in.(type) {
			case *ssa.Store:
				if f, fi, ok := addrRootFam(i.Addr); ok {
					e.Writes[f] = fi
				} else {
					e.All = true
					e.Why = "store through unclassified address in " + fn.Name()
				}
			case *ssa.MapUpdate:
				e.Writes[famMap(i.Map.Type())] = famInfo{'M', i.Map.Type()}
			case *ssa.Alloc:
				pt := i.Type().Underlying().(*types.Pointer)
				if at, ok := pt.Elem().Underlying().(*types.Array); ok {
					e.Allocs[famElem(at.Elem())] = famInfo{'E', at.Elem()}
				} else {
					e.Allocs[famPtr(pt.Elem())] = famInfo{'H', pt.Elem()}
				}
			case *ssa.MakeMap:
				e.Allocs[famMap(i.Type())] = famInfo{'M', i.Type()}
			case *ssa.MakeSlice:
				{
					el := i.Type().Underlying().(*types.Slice).Elem()
					e.Allocs[famElem(el)] = famInfo{'E', el}
				}
			case *ssa.MakeClosure, *ssa.MakeChan:
				// allocation counter only
				e.Allocs["closure"] = famInfo{'C', nil}
			case *ssa.Send, *ssa.Select:
				// no heap effect
			case ssa.CallInstruction:
				e.add(c.ofCall(fn, i))
			}
		}
	}
	return e
}

func (c *effCtx) ofCall(fn *ssa.Function, ci ssa.CallInstruction) *Effects {
	com := ci.Common()
	e := newEffects()
	if _, isGo := ci.(*ssa.Go); isGo {
		if gfn := com.StaticCallee(); gfn != nil {
			if gc := c.P.Contracts.Funcs[FuncKey(gfn)]; gc != nil && gc.Deferred {
				return e
			}
		}
	}
	if com.IsInvoke() {
		key := ifaceKey(com)
		if fc := c.P.Contracts.Funcs[key]; fc != nil {
			return c.ofContract(fc, key, sigTypes(com.Signature(), com.Value.Type())...)
		}
		e.All = true
		e.Why = "interface call without contract: " + key
		return e
	}
	switch cal := com.Value.(type) {
	case *ssa.Builtin:
		switch cal.Name() {
		case "append":
			if st, ok := com.Args[0].Type().Underlying().(*types.Slice); ok {
				f := famElem(st.Elem())
				e.Writes[f] = famInfo{'E', st.Elem()}
				e.Allocs[f] = famInfo{'E', st.Elem()}
			}
		case "copy":
			if st, ok := com.Args[0].Type().Underlying().(*types.Slice); ok {
				e.Writes[famElem(st.Elem())] = famInfo{'E', st.Elem()}
			}
		case "delete":
			e.Writes[famMap(com.Args[0].Type())] = famInfo{'M', com.Args[0].Type()}
		case "clear":
			e.All = true
			e.Why = "clear builtin"
		}
		return e
	case *ssa.Function:
		if cal.Pkg == nil || !strings.HasPrefix(cal.Pkg.Pkg.Path(), ModulePath) {
			if fc := c.P.Contracts.Funcs[externKey(cal)]; fc != nil {
				// an interface-typed parameter that receives a boxed pointer: use the pointer's type
				pt := fnTypes(cal)
				off := 0
				if cal.Signature.Recv() != nil {
					off = 1
				}
				for i, a := range com.Args {
					if mi, ok := a.(*ssa.MakeInterface); ok && i+off < len(pt) {
						_ = off
						pt[i] = mi.X.Type()
					}
				}
				return c.ofContract(fc, externKey(cal), pt...)
			}
		}
		return c.ofFunc(cal)
	case *ssa.MakeClosure:
		return c.ofFunc(cal.Fn.(*ssa.Function))
	}
	// dynamic function value: named by a `calls` clause of the function's own contract or, for a
	// helper without contract (it is inlined into the unit), of the unit's root contract
	fcs := c.P.Contracts.Funcs[FuncKey(fn)]
	if fcs == nil {
		fcs = c.root
	}
	if fc := fcs; fc != nil {
		if key, ok := fc.CallsAs[describeValue(fn, com.Value)]; ok {
			if sc := c.P.Contracts.Funcs[key]; sc != nil {
				if target := c.P.Funcs[key]; target != nil && sc.Kind == "func" {
					return c.ofFunc(target)
				}
				return c.ofContract(sc, key, sigTypes(com.Signature(), nil)...)
			}
		}
	}
	e.All = true
	e.Why = "dynamic call of " + describeValue(fn, com.Value) + " in " + fn.Name()
	return e
}

// ifaceKey names the contract of an interface method call: iface:<type>.<method>
func ifaceKey(com *ssa.CallCommon) string {
	t := com.Value.Type()
	name := typeStr(t)
	return "iface:" + name + "." + com.Method.Name()
}

func fnTypes(fn *ssa.Function) []types.Type {
	var recv types.Type
	if r := fn.Signature.Recv(); r != nil {
		recv = r.Type()
	}
	return sigTypes(fn.Signature, recv)
}

// logKeysBlocks: the ghost call logs (contract keys) that the code may
// advance, directly or through the module functions it calls. "*" stands
// for every log (a call whose target is unknown); "gs:*" for the ghost sets.
func (c *effCtx) logKeysBlocks(fn *ssa.Function, blocks []*ssa.BasicBlock) map[string]bool {
	out := map[string]bool{}
	seen := map[*ssa.Function]bool{}
	c.logWalk(fn, blocks, out, seen)
	return out
}

func (c *effCtx) logKeysFunc(fn *ssa.Function) map[string]bool {
	if c.logKeys == nil {
		c.logKeys = map[*ssa.Function]map[string]bool{}
	}
	if m, ok := c.logKeys[fn]; ok {
		return m
	}
	out := map[string]bool{}
	seen := map[*ssa.Function]bool{}
	c.logVisit(fn, out, seen)
	c.logKeys[fn] = out
	return out
}

// logKeysBody: the logs advanced by the calls in fn's body (fn's own log
// entry and ghost-set additions, which its contract describes, excluded).
func (c *effCtx) logKeysBody(fn *ssa.Function) map[string]bool {
	if c.logBody == nil {
		c.logBody = map[*ssa.Function]map[string]bool{}
	}
	if m, ok := c.logBody[fn]; ok {
		return m
	}
	out := map[string]bool{}
	c.logBody[fn] = out
	if fn.Blocks == nil {
		return out
	}
	if fn.Pkg == nil || !strings.HasPrefix(fn.Pkg.Pkg.Path(), ModulePath) {
		return out
	}
	if fc := c.P.Contracts.Funcs[FuncKey(fn)]; fc != nil && fc.Trusted {
		return out
	}
	seen := map[*ssa.Function]bool{} // fn itself is not marked: a recursive call advances fn's own log
	c.logWalk(fn, fn.Blocks, out, seen)
	return out
}

func (c *effCtx) logVisit(fn *ssa.Function, out map[string]bool, seen map[*ssa.Function]bool) {
	if fn == nil || seen[fn] {
		return
	}
	seen[fn] = true
	if fn.Pkg == nil || !strings.HasPrefix(fn.Pkg.Pkg.Path(), ModulePath) {
		if fn.Pkg == nil && fn.Parent() != nil {
			// closure of a module function keeps its parent's package
		} else {
			if fc := c.P.Contracts.Funcs[externKey(fn)]; fc != nil && fc.Logged {
				out[externKey(fn)] = true
			}
			// library code does not call back into logged contracts unless it is handed a closure
			return
		}
	}
	if fc := c.P.Contracts.Funcs[FuncKey(fn)]; fc != nil {
		if fc.Logged {
			out[FuncKey(fn)] = true
		}
		if len(fc.GhostAdds) > 0 {
			out["gs:*"] = true
		}
		if fc.Trusted {
			// a trusted contract is taken as the whole description of the call, its effect on the logs included
			return
		}
	}
	c.logWalk(fn, fn.Blocks, out, seen)
}

func (c *effCtx) logWalk(fn *ssa.Function, blocks []*ssa.BasicBlock, out map[string]bool, seen map[*ssa.Function]bool) {
	for _, b := range blocks {
		for _, in := range b.Instrs {
			ci, ok := in.(ssa.CallInstruction)
			if !ok {
				continue
			}
			com := ci.Common()
			if _, isGo := in.(*ssa.Go); isGo {
				if sf, ok := com.Value.(*ssa.Function); ok {
					if fc := c.P.Contracts.Funcs[FuncKey(sf)]; fc != nil && fc.Deferred {
						continue
					}
				}
			}
			if com.IsInvoke() {
				fc := c.P.Contracts.Funcs[ifaceKey(com)]
				if fc == nil {
					out["*"] = true
				} else if fc.Logged {
					out[ifaceKey(com)] = true
				}
				continue
			}
			switch cal := com.Value.(type) {
			case *ssa.Builtin:
				continue
			case *ssa.Function:
				c.logVisit(cal, out, seen)
			case *ssa.MakeClosure:
				c.logVisit(cal.Fn.(*ssa.Function), out, seen)
			default:
				fcs := c.P.Contracts.Funcs[FuncKey(fn)]
				if fcs == nil {
					fcs = c.root
				}
				if fc := fcs; fc != nil {
					if key, ok := fc.CallsAs[describeValue(fn, com.Value)]; ok {
						if sc := c.P.Contracts.Funcs[key]; sc != nil {
							if sc.Logged {
								out[key] = true
							}
							continue
						}
					}
				}
				out["*"] = true
			}
		}
	}
}

// logHit: does the ghost variable gk belong to one of the logs in keys?
func logHit(keys map[string]bool, gk string) bool {
	if len(keys) == 0 {
		return false
	}
	for _, pfx := range []string{"n:", "ret:", "arg:", "fret:"} {
		if strings.HasPrefix(gk, pfx) {
			if keys["*"] {
				return true
			}
			rest := gk[len(pfx):]
			for k := range keys {
				if rest == k || strings.HasPrefix(rest, k+":") {
					return true
				}
			}
			return false
		}
	}
	if strings.HasPrefix(gk, "gs:") {
		return keys["*"] || keys["gs:*"]
	}
	return false
}
