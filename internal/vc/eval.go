package vc

import (
	"fmt"
	"go/token"
	"go/types"
	"sort"
	"strings"

	"golang.org/x/tools/go/ssa"
)

// TV is a typed SMT term. Ty is a types.Type or one of the pseudo types below.
type TV struct {
	T  Term
	Ty interface{}
}

// anchor: a quantified integer variable used as a slice index is re-indexed by
// the absolute position in the backing array, so that the element access is a
// usable E-matching pattern (arithmetic inside a pattern never matches).
type anchor struct {
	slice Term
	abs   string
}

type setTy struct{ elem types.Type } // set of keys: (Array K Bool)
type mapContentTy struct{ m types.Type }

var (
	tyBool   = types.Typ[types.Bool]
	tyInt    = types.Typ[types.Int]
	tyString = types.Typ[types.String]
	tyFloat  = types.Typ[types.Float64]
)

// Env is the evaluation context of a contract expression.
type Env struct {
	e        *enc
	vars     map[string]TV
	st       *State // current heap
	old      *State // heap at function entry / before the call
	allocOld Term
	pkg      *types.Package
	fx       *fx
	resolve  func(name string) (TV, bool)
	seen     func(n int) (TV, bool)
	loopSt   *State // state at loop entry (for loop frames)
	phiVal   func(ph interface{}) (Term, bool)
	anchors  map[string]*anchor // quantified int variables (by SMT name) -> slice they index
	// Well-formedness of references read from the heap inside contract
	// expressions ("allocated before now"): ground reads are assumed directly;
	// reads under a quantifier are embedded in the quantified formula - as an
	// antecedent when the formula is a goal, as a conjunct when it is assumed.
	mixed   bool     // under <==>: polarity unknown
	hyp     bool     // the formula being built is assumed (not proved)
	neg     bool     // negative position (left of ==>, under !)
	binders []string // SMT names of the enclosing quantified variables
	sides   *[]Term  // side facts collected for the innermost quantifier
	// in loop clauses a name denotes the variable's current value (a phi), not the parameter's entry value
	preferResolve bool
	shadowable    map[string]bool
	inOld         bool
	// key functions (keyfn) of a callee, instantiated for one call site: name -> SMT function symbol
	fnAlias map[string]string
}

// readWF records that value v of type t was read from the heap in state env.st.
func (env *Env) readWF(v Term, t types.Type) {
	cs := env.e.wf(v, t, env.st.alloc)
	if isInterface(t) {
		// for values inside quantified formulas only the allocation bound matters
		cs = []Term{fmt.Sprintf("(< (vref %s) %s)", v, env.st.alloc)}
	}
	if len(cs) == 0 {
		return
	}
	fact := and(cs...)
	bound := false
	for _, b := range env.binders {
		if strings.Contains(v, b) {
			bound = true
			break
		}
	}
	if !bound {
		env.e.assume(fact)
		return
	}
	if env.sides != nil {
		*env.sides = append(*env.sides, fact)
	}
}

func (env *Env) with(name string, tv TV) *Env {
	n := *env
	n.vars = make(map[string]TV, len(env.vars)+1)
	for k, v := range env.vars {
		n.vars[k] = v
	}
	n.vars[name] = tv
	if env.shadowable[name] {
		n.shadowable = make(map[string]bool, len(env.shadowable))
		for k, v := range env.shadowable {
			if k != name {
				n.shadowable[k] = v
			}
		}
	}
	return &n
}

func (e *enc) pkgOf(fc *FuncContract) *types.Package {
	for path, p := range e.P.TPkgs {
		if shortPkg(path) == fc.Pkg {
			return p.Types
		}
	}
	return nil
}

// resolveType evaluates a Go type expression in the package scope of the contract.
func (env *Env) resolveType(s string) (types.Type, error) {
	switch s {
	case "int":
		return tyInt, nil
	case "string":
		return tyString, nil
	case "bool":
		return tyBool, nil
	case "float64":
		return tyFloat, nil
	case "ref":
		return types.Typ[types.UnsafePointer], nil
	case "any", "interface{}":
		return types.NewInterfaceType(nil, nil), nil
	}
	if env.pkg == nil {
		return nil, fmt.Errorf("no package scope to resolve type %q", s)
	}
	// qualified names: pkg.Name where pkg is an import of the contract's package
	tvv, err := types.Eval(env.e.P.Fset, env.pkg, token.NoPos, s)
	if err != nil {
		// qualified names are visible in file scopes only: try each file of the package
		if tp := env.e.P.TPkgs[env.pkg.Path()]; tp != nil {
			for _, f := range tp.Syntax {
				if v2, err2 := types.Eval(env.e.P.Fset, env.pkg, f.Name.End(), s); err2 == nil {
					tvv, err = v2, nil
					break
				}
			}
		}
	}
	if err != nil {
		return nil, fmt.Errorf("cannot resolve type %q: %v", s, err)
	}
	if !tvv.IsType() {
		return nil, fmt.Errorf("%q is not a type", s)
	}
	return tvv.Type, nil
}

func goType(tv TV) (types.Type, bool) {
	t, ok := tv.Ty.(types.Type)
	return t, ok
}

func (env *Env) eval(ex Expr) (TV, error) {
	e := env.e
	switch n := ex.(type) {
	case *IntLit:
		return TV{n.V, tyInt}, nil
	case *RealLit:
		return TV{n.V, tyFloat}, nil
	case *StrLit:
		return TV{smtString(n.V), tyString}, nil
	case *BoolLit:
		if n.V {
			return TV{"true", tyBool}, nil
		}
		return TV{"false", tyBool}, nil
	case *NilLit:
		return TV{"0", types.Typ[types.UntypedNil]}, nil
	case *Ident:
		if env.preferResolve && !env.inOld && env.resolve != nil {
			if _, isQ := env.vars[n.Name]; !isQ || env.shadowable[n.Name] {
				if tv, ok := env.resolve(n.Name); ok {
					return tv, nil
				}
			}
		}
		if tv, ok := env.vars[n.Name]; ok {
			return tv, nil
		}
		if tv, ok := e.logicals[n.Name]; ok {
			return tv, nil
		}
		if env.resolve != nil {
			if tv, ok := env.resolve(n.Name); ok {
				return tv, nil
			}
		}
		// package-level variable or constant
		if env.pkg != nil {
			if obj := env.pkg.Scope().Lookup(n.Name); obj != nil {
				switch o := obj.(type) {
				case *types.Const:
					return TV{e.S.constTerm(o.Val(), o.Type()), o.Type()}, nil
				case *types.Var:
					return env.globalVar(o)
				}
			}
		}
		return TV{}, fmt.Errorf("unknown identifier %q", n.Name)
	case *Unary:
		uenv := env
		if n.Op == "!" {
			f := *env
			f.neg = !env.neg
			uenv = &f
		}
		xv, err := uenv.eval(n.X)
		if err != nil {
			return TV{}, err
		}
		if n.Op == "!" {
			return TV{not(xv.T), tyBool}, nil
		}
		if n.Op == "*" {
			t, ok := goType(xv)
			if !ok {
				return TV{}, fmt.Errorf("* of a non-Go value")
			}
			pt, ok := t.Underlying().(*types.Pointer)
			if !ok {
				return TV{}, fmt.Errorf("* of a non-pointer %s", typeStr(t))
			}
			f := e.ptrFam(pt.Elem())
			v := fmt.Sprintf("(select %s %s)", e.get(env.st, f), xv.T)
			env.readWF(v, pt.Elem())
			return TV{v, pt.Elem()}, nil
		}
		return TV{"(- " + xv.T + ")", xv.Ty}, nil
	case *Cond:
		c, err := env.eval(n.C)
		if err != nil {
			return TV{}, err
		}
		a, err := env.eval(n.A)
		if err != nil {
			return TV{}, err
		}
		b, err := env.eval(n.B)
		if err != nil {
			return TV{}, err
		}
		a, b = env.unify(a, b)
		return TV{fmt.Sprintf("(ite %s %s %s)", c.T, a.T, b.T), a.Ty}, nil
	case *Binary:
		return env.evalBinary(n)
	case *Quant:
		inner := env
		anch := map[string]*anchor{}
		for k, v := range env.anchors {
			anch[k] = v
		}
		var names []string
		var sortsL []string
		for _, v := range n.Vars {
			raw := v.Type == "rawint" // an integer that is not re-indexed by a slice it subscripts
			if raw {
				v.Type = "int"
			}
			t, err := env.resolveType(v.Type)
			if err != nil {
				return TV{}, err
			}
			e.n++
			name := q(fmt.Sprintf("q:%s!%d", v.Name, e.n))
			inner = inner.with(v.Name, TV{name, t})
			names = append(names, name)
			sortsL = append(sortsL, e.S.sortOf(t))
			if isInteger(t) && !raw {
				anch[name] = &anchor{abs: q(fmt.Sprintf("a:%s!%d", v.Name, e.n))}
			}
		}
		inner.anchors = anch
		var mySides []Term
		inner.sides = &mySides
		inner.binders = append(append([]string{}, env.binders...), names...)
		for _, nm := range names {
			if a := anch[nm]; a != nil {
				inner.binders = append(inner.binders, a.abs)
			}
		}
		b, err := inner.eval(n.Body)
		if err != nil {
			return TV{}, err
		}
		// side facts that mention only outer binders bubble up
		var here []Term
		for _, f := range mySides {
			mine := false
			for _, nm := range names {
				if strings.Contains(f, nm) {
					mine = true
				}
				if a := anch[nm]; a != nil && strings.Contains(f, a.abs) {
					mine = true
				}
			}
			if mine {
				here = append(here, f)
			} else if env.sides != nil {
				*env.sides = append(*env.sides, f)
			}
		}
		if len(here) > 0 && n.Forall && !env.mixed {
			// dedupe
			seenF := map[string]bool{}
			var uniq []Term
			for _, f := range here {
				if !seenF[f] {
					seenF[f] = true
					uniq = append(uniq, f)
				}
			}
			if env.hyp != env.neg {
				b.T = and(append(uniq, b.T)...) // assumed: the facts hold as well
			} else {
				b.T = implies(and(uniq...), b.T) // goal: the facts may be used
			}
		}
		var binders []string
		var lets []string
		for i, name := range names {
			if a := anch[name]; a != nil && a.slice != "" {
				binders = append(binders, fmt.Sprintf("(%s Int)", a.abs))
				lets = append(lets, fmt.Sprintf("(%s (- %s (soff %s)))", name, a.abs, a.slice))
			} else {
				binders = append(binders, fmt.Sprintf("(%s %s)", name, sortsL[i]))
			}
		}
		body := b.T
		for i := len(lets) - 1; i >= 0; i-- {
			body = fmt.Sprintf("(let (%s) %s)", lets[i], body)
		}
		qn := "forall"
		if !n.Forall {
			qn = "exists"
		}
		return TV{fmt.Sprintf("(%s (%s) %s)", qn, strings.Join(binders, " "), body), tyBool}, nil
	case *Sel:
		return env.evalSel(n)
	case *Index:
		return env.evalIndex(n)
	case *SliceE:
		xv, err := env.eval(n.X)
		if err != nil {
			return TV{}, err
		}
		lo, hi := "0", ""
		if n.Lo != nil {
			l, err := env.eval(n.Lo)
			if err != nil {
				return TV{}, err
			}
			lo = l.T
		}
		t, _ := goType(xv)
		if t != nil && isString(t) {
			if n.Hi != nil {
				h, err := env.eval(n.Hi)
				if err != nil {
					return TV{}, err
				}
				hi = h.T
			} else {
				hi = "(str.len " + xv.T + ")"
			}
			return TV{fmt.Sprintf("(str.substr %s %s (- %s %s))", xv.T, lo, hi, lo), tyString}, nil
		}
		if n.Hi != nil {
			h, err := env.eval(n.Hi)
			if err != nil {
				return TV{}, err
			}
			hi = h.T
		} else {
			hi = "(slen " + xv.T + ")"
		}
		return TV{fmt.Sprintf("(mkSlice (sref %s) (+ (soff %s) %s) (- %s %s) (- (scap %s) %s))", xv.T, xv.T, lo, hi, lo, xv.T, lo), xv.Ty}, nil
	case *Assert:
		xv, err := env.eval(n.X)
		if err != nil {
			return TV{}, err
		}
		t, err := env.resolveType(n.T)
		if err != nil {
			return TV{}, err
		}
		return TV{e.S.fromVal(xv.T, t), t}, nil
	case *Call:
		return env.evalCall(n)
	}
	return TV{}, fmt.Errorf("cannot evaluate %T", ex)
}

func (env *Env) globalVar(o *types.Var) (TV, error) {
	e := env.e
	sp := e.P.Pkgs[o.Pkg().Path()]
	if sp == nil {
		return TV{}, fmt.Errorf("package of %s not loaded", o.Name())
	}
	g, ok := sp.Members[o.Name()].(interface{ Type() types.Type })
	_ = g
	gl := sp.Var(o.Name())
	if gl == nil || !ok {
		return TV{}, fmt.Errorf("no global %s", o.Name())
	}
	ref := e.globalRef(gl)
	f := e.ptrFam(o.Type())
	return TV{fmt.Sprintf("(select %s %s)", e.get(env.st, f), ref), o.Type()}, nil
}

// unify makes nil literals / untyped values agree with the other side.
func (env *Env) unify(a, b TV) (TV, TV) {
	e := env.e
	at, aok := goType(a)
	bt, bok := goType(b)
	if !aok || !bok {
		return a, b
	}
	isNil := func(t types.Type) bool {
		bb, ok := t.(*types.Basic)
		return ok && bb.Kind() == types.UntypedNil
	}
	switch {
	case isNil(at) && !isNil(bt):
		return TV{e.S.zero(bt), bt}, b
	case isNil(bt) && !isNil(at):
		return a, TV{e.S.zero(at), at}
	}
	if isInterface(at) && !isInterface(bt) {
		return a, TV{e.S.toVal(b.T, bt), at}
	}
	if isInterface(bt) && !isInterface(at) {
		return TV{e.S.toVal(a.T, at), bt}, b
	}
	if isFloat(at) && isInteger(bt) {
		return a, TV{"(to_real " + b.T + ")", at}
	}
	if isFloat(bt) && isInteger(at) {
		return TV{"(to_real " + a.T + ")", bt}, b
	}
	return a, b
}

func (env *Env) evalBinary(n *Binary) (TV, error) {
	e := env.e
	if n.Op == "in" {
		k, err := env.eval(n.X)
		if err != nil {
			return TV{}, err
		}
		m, err := env.eval(n.Y)
		if err != nil {
			return TV{}, err
		}
		switch mt := m.Ty.(type) {
		case *setTy:
			return TV{fmt.Sprintf("(select %s %s)", m.T, k.T), tyBool}, nil
		case types.Type:
			if _, ok := mt.Underlying().(*types.Map); ok {
				d, _, _ := e.mapFams(mt)
				key := k
				if kt, ok := goType(k); ok && isInterface(mt.Underlying().(*types.Map).Key()) && !isInterface(kt) {
					key = TV{e.S.toVal(k.T, kt), mt.Underlying().(*types.Map).Key()}
				}
				return TV{fmt.Sprintf("(and (not (= %s 0)) (select (select %s %s) %s))", m.T, e.get(env.st, d), m.T, key.T), tyBool}, nil
			}
		}
		return TV{}, fmt.Errorf("'in' needs a map or set on the right")
	}
	lhs := env
	if n.Op == "==>" {
		f := *env
		f.neg = !env.neg
		lhs = &f
	}
	if n.Op == "<==>" {
		// both polarities: quantifiers below cannot embed side facts
		f := *env
		f.mixed = true
		lhs = &f
		env = &f
	}
	a, err := lhs.eval(n.X)
	if err != nil {
		return TV{}, err
	}
	b, err := env.eval(n.Y)
	if err != nil {
		return TV{}, err
	}
	switch n.Op {
	case "&&":
		return TV{and(a.T, b.T), tyBool}, nil
	case "||":
		return TV{or(a.T, b.T), tyBool}, nil
	case "==>":
		return TV{implies(a.T, b.T), tyBool}, nil
	case "<==>":
		return TV{fmt.Sprintf("(= %s %s)", a.T, b.T), tyBool}, nil
	case "==", "!=":
		a, b = env.unify(a, b)
		var r Term
		if at, ok := goType(a); ok {
			if _, isSl := at.Underlying().(*types.Slice); isSl {
				if _, isNilB := n.Y.(*NilLit); isNilB {
					r = fmt.Sprintf("(= (sref %s) 0)", a.T)
				}
			}
		}
		if r == "" {
			r = fmt.Sprintf("(= %s %s)", a.T, b.T)
		}
		if n.Op == "!=" {
			r = not(r)
		}
		return TV{r, tyBool}, nil
	case "<", "<=", ">", ">=":
		a, b = env.unify(a, b)
		if at, ok := goType(a); ok && isString(at) {
			switch n.Op {
			case "<":
				return TV{fmt.Sprintf("(str.< %s %s)", a.T, b.T), tyBool}, nil
			case "<=":
				return TV{fmt.Sprintf("(str.<= %s %s)", a.T, b.T), tyBool}, nil
			case ">":
				return TV{fmt.Sprintf("(str.< %s %s)", b.T, a.T), tyBool}, nil
			default:
				return TV{fmt.Sprintf("(str.<= %s %s)", b.T, a.T), tyBool}, nil
			}
		}
		return TV{fmt.Sprintf("(%s %s %s)", n.Op, a.T, b.T), tyBool}, nil
	case "+":
		if at, ok := goType(a); ok && isString(at) {
			return TV{fmt.Sprintf("(str.++ %s %s)", a.T, b.T), tyString}, nil
		}
		a, b = env.unify(a, b)
		return TV{fmt.Sprintf("(+ %s %s)", a.T, b.T), a.Ty}, nil
	case "-", "*":
		a, b = env.unify(a, b)
		return TV{fmt.Sprintf("(%s %s %s)", n.Op, a.T, b.T), a.Ty}, nil
	case "/":
		a, b = env.unify(a, b)
		if at, ok := goType(a); ok && isFloat(at) {
			return TV{fmt.Sprintf("(/ %s %s)", a.T, b.T), a.Ty}, nil
		}
		return TV{fmt.Sprintf("(div %s %s)", a.T, b.T), a.Ty}, nil
	case "%":
		return TV{fmt.Sprintf("(mod %s %s)", a.T, b.T), a.Ty}, nil
	}
	return TV{}, fmt.Errorf("unknown operator %s", n.Op)
}

// deref loads the pointee of a pointer value.
func (env *Env) derefStruct(p TV) (TV, types.Type, error) {
	t, ok := goType(p)
	if !ok {
		return TV{}, nil, fmt.Errorf("not a Go value")
	}
	if pt, ok := t.Underlying().(*types.Pointer); ok {
		f := env.e.ptrFam(pt.Elem())
		v := fmt.Sprintf("(select %s %s)", env.e.get(env.st, f), p.T)
		return TV{v, pt.Elem()}, pt.Elem(), nil
	}
	return p, t, nil
}

func (env *Env) evalSel(n *Sel) (TV, error) {
	e := env.e
	// qualified identifier pkg.Name ?
	if id, ok := n.X.(*Ident); ok {
		if _, isVar := env.vars[id.Name]; !isVar && env.pkg != nil {
			if _, isLog := e.logicals[id.Name]; !isLog {
				resolved := false
				if env.resolve != nil {
					_, resolved = env.resolve(id.Name)
				}
				if !resolved && env.pkg.Scope().Lookup(id.Name) == nil {
					for _, imp := range env.pkg.Imports() {
						if imp.Name() == id.Name {
							obj := imp.Scope().Lookup(n.Name)
							switch o := obj.(type) {
							case *types.Const:
								return TV{e.S.constTerm(o.Val(), o.Type()), o.Type()}, nil
							case *types.Var:
								return env.globalVar(o)
							}
							return TV{}, fmt.Errorf("unknown %s.%s", id.Name, n.Name)
						}
					}
				}
			}
		}
	}
	xv, err := env.eval(n.X)
	if err != nil {
		return TV{}, err
	}
	sv, st, err := env.derefStruct(xv)
	if err != nil {
		return TV{}, err
	}
	// field lookup including embedded fields
	obj, index, _ := types.LookupFieldOrMethod(st, true, nil, n.Name)
	if obj == nil && env.pkg != nil {
		obj, index, _ = types.LookupFieldOrMethod(st, true, env.pkg, n.Name)
	}
	if obj == nil {
		// unexported field of another package: search manually
		obj, index = findField(st, n.Name)
	}
	fv, ok := obj.(*types.Var)
	if !ok || !fv.IsField() {
		return TV{}, fmt.Errorf("no field %s in %s", n.Name, typeStr(st))
	}
	cur := sv
	curT := st
	for _, ix := range index {
		// step through embedded pointers
		c2, t2, err := env.derefStruct(TV{cur.T, curT})
		if err != nil {
			return TV{}, err
		}
		cur, curT = c2, t2
		su, ok := curT.Underlying().(*types.Struct)
		if !ok {
			return TV{}, fmt.Errorf("field path through non-struct %s", typeStr(curT))
		}
		e.S.sortOf(curT)
		cur = TV{fmt.Sprintf("(%s %s)", e.S.fieldAcc(curT, ix), cur.T), su.Field(ix).Type()}
		env.readWF(cur.T, su.Field(ix).Type())
		curT = su.Field(ix).Type()
	}
	return cur, nil
}

func findField(t types.Type, name string) (types.Object, []int) {
	if pt, ok := t.Underlying().(*types.Pointer); ok {
		t = pt.Elem()
	}
	su, ok := t.Underlying().(*types.Struct)
	if !ok {
		return nil, nil
	}
	for i := 0; i < su.NumFields(); i++ {
		if su.Field(i).Name() == name {
			return su.Field(i), []int{i}
		}
	}
	for i := 0; i < su.NumFields(); i++ {
		if su.Field(i).Embedded() {
			if o, ix := findField(su.Field(i).Type(), name); o != nil {
				return o, append([]int{i}, ix...)
			}
		}
	}
	return nil, nil
}

func (env *Env) evalIndex(n *Index) (TV, error) {
	e := env.e
	xv, err := env.eval(n.X)
	if err != nil {
		return TV{}, err
	}
	iv, err := env.eval(n.I)
	if err != nil {
		return TV{}, err
	}
	t, ok := goType(xv)
	if !ok {
		if st, ok := xv.Ty.(*setTy); ok {
			_ = st
			return TV{fmt.Sprintf("(select %s %s)", xv.T, iv.T), tyBool}, nil
		}
		return TV{}, fmt.Errorf("cannot index")
	}
	switch u := t.Underlying().(type) {
	case *types.Map:
		_, vl, _ := e.mapFams(t)
		key := iv
		if kt, ok := goType(iv); ok && isInterface(u.Key()) && !isInterface(kt) {
			key = TV{e.S.toVal(iv.T, kt), u.Key()}
		}
		mv := fmt.Sprintf("(select (select %s %s) %s)", e.get(env.st, vl), xv.T, key.T)
		env.readWF(mv, u.Elem())
		return TV{mv, u.Elem()}, nil
	case *types.Slice:
		f := e.elemFam(u.Elem())
		if a := env.anchors[iv.T]; a != nil && !strings.Contains(xv.T, iv.T) {
			if a.slice == "" {
				a.slice = xv.T
			}
			if a.slice == xv.T {
				ev := fmt.Sprintf("(select (select %s (sref %s)) %s)", e.get(env.st, f), xv.T, a.abs)
				env.readWF(ev, u.Elem())
				return TV{ev, u.Elem()}, nil
			}
		}
		ev := fmt.Sprintf("(select (select %s (sref %s)) (+ (soff %s) %s))", e.get(env.st, f), xv.T, xv.T, iv.T)
		env.readWF(ev, u.Elem())
		return TV{ev, u.Elem()}, nil
	case *types.Basic:
		if isString(t) {
			return TV{fmt.Sprintf("(str.to_code (str.at %s %s))", xv.T, iv.T), types.Typ[types.Uint8]}, nil
		}
	case *types.Array:
		return TV{fmt.Sprintf("(select %s %s)", xv.T, iv.T), u.Elem()}, nil
	}
	return TV{}, fmt.Errorf("cannot index %s", typeStr(t))
}

func (env *Env) evalArgs(args []Expr) ([]TV, error) {
	out := make([]TV, len(args))
	for i, a := range args {
		if ta, ok := a.(*TypeArg); ok {
			t, err := env.resolveType(ta.T)
			if err != nil {
				return nil, err
			}
			out[i] = TV{"", t}
			continue
		}
		v, err := env.eval(a)
		if err != nil {
			return nil, err
		}
		out[i] = v
	}
	return out, nil
}

// mapContent returns dom and val arrays of a map value in the env's state.
func (env *Env) mapContent(m TV) (dom, val Term, mt *types.Map, err error) {
	t, ok := goType(m)
	if !ok {
		return "", "", nil, fmt.Errorf("not a map")
	}
	u, ok := t.Underlying().(*types.Map)
	if !ok {
		return "", "", nil, fmt.Errorf("%s is not a map", typeStr(t))
	}
	d, vl, _ := env.e.mapFams(t)
	return fmt.Sprintf("(select %s %s)", env.e.get(env.st, d), m.T), fmt.Sprintf("(select %s %s)", env.e.get(env.st, vl), m.T), u, nil
}

func (env *Env) evalCall(n *Call) (TV, error) {
	e := env.e
	switch n.Fn {
	case "ghostin":
		// ghostin(set, e): e is a member of the ghost set
		if len(n.Args) != 2 {
			return TV{}, fmt.Errorf("ghostin(set, expr)")
		}
		gk := "gs:" + flattenName(n.Args[0])
		v, err := env.eval(n.Args[1])
		if err != nil {
			return TV{}, err
		}
		var setT Term
		if t, ok := env.st.ghost[gk]; ok {
			setT = t
		} else if t, ok := e.ghostEntry[gk]; ok {
			setT = t
		} else {
			e.famSort["ghost:"+gk] = "(Array String Bool)"
			setT = e.declare("ghost:"+gk, "(Array String Bool)")
			e.ghostEntry[gk] = setT
		}
		return TV{fmt.Sprintf("(select %s %s)", setT, v.T), tyBool}, nil
	case "atcall":
		// atcall(contract, e): e evaluated in the heap right after the first call of the contract in this activation
		if len(n.Args) != 2 {
			return TV{}, fmt.Errorf("atcall(contract, expr)")
		}
		key := flattenName(n.Args[0])
		for _, pre := range []string{"", "iface:", "sig:", "extern:"} {
			if sn, ok := env.st.snaps[pre+key]; ok {
				o := *env
				o.st = sn
				return o.eval(n.Args[1])
			}
		}
		// no call on any path reaching here: the expression is evaluated in the entry state
		o := *env
		o.st = env.old
		return o.eval(n.Args[1])
	case "ncalls", "lastret", "lastarg", "firstret":
		key := flattenName(n.Args[0])
		full := ""
		for _, pre := range []string{"", "iface:", "sig:", "extern:"} {
			if _, ok := e.P.Contracts.Funcs[pre+key]; ok {
				full = pre + key
				break
			}
		}
		if full == "" && env.pkg != nil {
			// unqualified: a function of the contract's own package
			k2 := shortPkg(env.pkg.Path()) + "." + key
			if _, ok := e.P.Contracts.Funcs[k2]; ok {
				full = k2
			}
		}
		if full == "" {
			return TV{}, fmt.Errorf("%s: no contract %q", n.Fn, key)
		}
		if n.Fn == "ncalls" {
			if t, ok := env.st.ghost["n:"+full]; ok {
				return TV{t, tyInt}, nil
			}
			if t, ok := e.ghostEntry["n:"+full]; ok {
				return TV{t, tyInt}, nil
			}
			return TV{}, fmt.Errorf("ncalls: %s is not logged", full)
		}
		if len(n.Args) != 2 {
			return TV{}, fmt.Errorf("%s(contract, name)", n.Fn)
		}
		pfx := "ret:"
		if n.Fn == "lastarg" {
			pfx = "arg:"
		}
		if n.Fn == "firstret" {
			pfx = "fret:"
		}
		gk := pfx + full + ":" + flattenName(n.Args[1])
		if t, ok := env.st.ghost[gk]; ok {
			return TV{t, e.ghostTy[gk]}, nil
		}
		if ty, ok := e.ghostTy[gk]; ok {
			// no call on this path: the value is unconstrained
			t, have := e.ghostEntry[gk]
			if !have {
				t = e.declare("ghost:"+gk, e.S.sortOf(ty))
				e.ghostEntry[gk] = t
			}
			return TV{t, ty}, nil
		}
		// no call encoded so far: for a module function the type comes from its signature
		if fn := e.P.Funcs[full]; fn != nil && pfx == "arg:" {
			for _, prm := range fn.Params {
				if prm.Name() == flattenName(n.Args[1]) {
					ty := prm.Type()
					e.famSort["ghost:"+gk] = e.S.sortOf(ty)
					e.ghostTy[gk] = ty
					t := e.declare("ghost:"+gk, e.S.sortOf(ty))
					e.ghostEntry[gk] = t
					return TV{t, ty}, nil
				}
			}
		}
		if fn := e.P.Funcs[full]; fn != nil && pfx != "arg:" {
			if fc := e.P.Contracts.Funcs[full]; fc != nil {
				res := fn.Signature.Results()
				for i := 0; i < res.Len() && i < len(fc.Returns); i++ {
					if fc.Returns[i] == flattenName(n.Args[1]) {
						ty := res.At(i).Type()
						e.famSort["ghost:"+gk] = e.S.sortOf(ty)
						e.ghostTy[gk] = ty
						t := e.declare("ghost:"+gk, e.S.sortOf(ty))
						e.ghostEntry[gk] = t
						return TV{t, ty}, nil
					}
				}
			}
		}
		// an interface method that this unit invokes somewhere (but not on this path): the types come from the method's signature
		if strings.HasPrefix(full, "iface:") && env.fx != nil {
			if sc := e.P.Contracts.Funcs[full]; sc != nil {
				if sig := findInvoke(env.fx.fn, full, map[*ssa.Function]bool{}); sig != nil {
					want := flattenName(n.Args[1])
					var ty types.Type
					if pfx == "arg:" {
						// contract parameters: (recv, p0, p1, ...)
						for i := 0; i < sig.Params().Len() && i+1 < len(sc.Params); i++ {
							if sc.Params[i+1] == want {
								ty = sig.Params().At(i).Type()
							}
						}
					} else {
						for i := 0; i < sig.Results().Len() && i < len(sc.Returns); i++ {
							if sc.Returns[i] == want {
								ty = sig.Results().At(i).Type()
							}
						}
					}
					if ty != nil {
						e.famSort["ghost:"+gk] = e.S.sortOf(ty)
						e.ghostTy[gk] = ty
						t := e.declare("ghost:"+gk, e.S.sortOf(ty))
						e.ghostEntry[gk] = t
						return TV{t, ty}, nil
					}
				}
			}
		}
		// an external function that this unit calls somewhere (but not on this path): the types come from the callee's signature
		if strings.HasPrefix(full, "extern:") && env.fx != nil {
			if sc := e.P.Contracts.Funcs[full]; sc != nil {
				if callee := e.findStaticCallee(env.fx.fn, full, map[*ssa.Function]bool{}); callee != nil {
					want := flattenName(n.Args[1])
					var ty types.Type
					if pfx == "arg:" {
						for i := 0; i < len(callee.Params) && i < len(sc.Params); i++ {
							if sc.Params[i] == want {
								ty = callee.Params[i].Type()
							}
						}
					} else {
						res := callee.Signature.Results()
						for i := 0; i < res.Len() && i < len(sc.Returns); i++ {
							if sc.Returns[i] == want {
								ty = res.At(i).Type()
							}
						}
					}
					if ty != nil {
						e.famSort["ghost:"+gk] = e.S.sortOf(ty)
						e.ghostTy[gk] = ty
						t := e.declare("ghost:"+gk, e.S.sortOf(ty))
						e.ghostEntry[gk] = t
						return TV{t, ty}, nil
					}
				}
			}
		}
		// a function value called through `calls v as sig:KEY`: the types come from v's signature
		if strings.HasPrefix(full, "sig:") && env.fx != nil {
			if root := env.fx.rootContract(); root != nil {
				for vname, k := range root.CallsAs {
					if k != full {
						continue
					}
					var sigT *types.Signature
					for _, prm := range env.fx.fn.Params {
						if prm.Name() == vname {
							sigT, _ = prm.Type().Underlying().(*types.Signature)
						}
					}
					for _, fv := range env.fx.fn.FreeVars {
						if fv.Name() == vname {
							if pt, ok := fv.Type().Underlying().(*types.Pointer); ok {
								sigT, _ = pt.Elem().Underlying().(*types.Signature)
							}
						}
					}
					sc := e.P.Contracts.Funcs[full]
					if sigT == nil || sc == nil {
						continue
					}
					want := flattenName(n.Args[1])
					var ty types.Type
					if pfx == "arg:" {
						for i := 0; i < sigT.Params().Len() && i < len(sc.Params); i++ {
							if sc.Params[i] == want {
								ty = sigT.Params().At(i).Type()
							}
						}
					} else {
						for i := 0; i < sigT.Results().Len() && i < len(sc.Returns); i++ {
							if sc.Returns[i] == want {
								ty = sigT.Results().At(i).Type()
							}
						}
					}
					if ty != nil {
						e.famSort["ghost:"+gk] = e.S.sortOf(ty)
						e.ghostTy[gk] = ty
						t := e.declare("ghost:"+gk, e.S.sortOf(ty))
						e.ghostEntry[gk] = t
						return TV{t, ty}, nil
					}
				}
			}
		}
		return TV{}, fmt.Errorf("%s: nothing recorded for %s (no call on this path?)", n.Fn, gk)
	case "old":
		if len(n.Args) != 1 {
			return TV{}, fmt.Errorf("old(e)")
		}
		o := *env
		o.st = env.old
		o.inOld = true
		return o.eval(n.Args[0])
	case "atloop":
		if env.loopSt == nil {
			return TV{}, fmt.Errorf("atloop outside a loop clause")
		}
		o := *env
		o.st = env.loopSt
		return o.eval(n.Args[0])
	}
	if sf, ok := e.P.Contracts.Specs[n.Fn]; ok {
		args, err := env.evalArgs(n.Args)
		if err != nil {
			return TV{}, err
		}
		if len(args) != len(sf.Params) {
			return TV{}, fmt.Errorf("spec %s: %d args, want %d", n.Fn, len(args), len(sf.Params))
		}
		inner := env
		for i, p := range sf.Params {
			inner = inner.with(p, args[i])
		}
		return inner.eval(sf.Body)
	}
	args, err := env.evalArgs(n.Args)
	if err != nil {
		return TV{}, err
	}
	if sym, ok := env.fnAlias[n.Fn]; ok && len(args) == 1 {
		return TV{fmt.Sprintf("(%s %s)", sym, args[0].T), tyInt}, nil
	}
	if e.ghostFns[n.Fn] && len(args) == 1 {
		if e.ghostFnAny[n.Fn] {
			return TV{fmt.Sprintf("(%s %s)", q("gf:"+n.Fn), args[0].T), types.NewInterfaceType(nil, nil)}, nil
		}
		if e.ghostFnStr[n.Fn] {
			return TV{fmt.Sprintf("(%s %s)", q("gf:"+n.Fn), args[0].T), tyString}, nil
		}
		return TV{fmt.Sprintf("(%s %s)", q("gf:"+n.Fn), args[0].T), tyInt}, nil
	}
	need := func(k int) error {
		if len(args) != k {
			return fmt.Errorf("%s: %d arguments, want %d", n.Fn, len(args), k)
		}
		return nil
	}
	switch n.Fn {
	case "len":
		if err := need(1); err != nil {
			return TV{}, err
		}
		t, _ := goType(args[0])
		if t == nil {
			return TV{}, fmt.Errorf("len of non-Go value")
		}
		switch t.Underlying().(type) {
		case *types.Map:
			_, _, c := e.mapFams(t)
			return TV{fmt.Sprintf("(ite (= %s 0) 0 (select %s %s))", args[0].T, e.get(env.st, c), args[0].T), tyInt}, nil
		case *types.Slice:
			return TV{"(slen " + args[0].T + ")", tyInt}, nil
		case *types.Basic:
			return TV{"(str.len " + args[0].T + ")", tyInt}, nil
		}
		return TV{}, fmt.Errorf("len of %s", typeStr(t))
	case "cap":
		return TV{"(scap " + args[0].T + ")", tyInt}, nil
	case "allocmark":
		// the allocation counter: every object with a reference >= allocmark() is allocated later
		return TV{env.st.alloc, types.Typ[types.UnsafePointer]}, nil
	case "off":
		return TV{"(soff " + args[0].T + ")", tyInt}, nil
	case "backing":
		return TV{"(sref " + args[0].T + ")", types.Typ[types.UnsafePointer]}, nil
	case "ref":
		// the object reference inside a value
		rs := refOf(args[0])
		if len(rs) != 1 {
			return TV{}, fmt.Errorf("ref() of a value without reference")
		}
		return TV{rs[0], types.Typ[types.UnsafePointer]}, nil
	case "hasPrefix":
		if err := need(2); err != nil {
			return TV{}, err
		}
		return TV{fmt.Sprintf("(str.prefixof %s %s)", args[1].T, args[0].T), tyBool}, nil
	case "hasSuffix":
		if err := need(2); err != nil {
			return TV{}, err
		}
		return TV{fmt.Sprintf("(str.suffixof %s %s)", args[1].T, args[0].T), tyBool}, nil
	case "contains":
		return TV{fmt.Sprintf("(str.contains %s %s)", args[0].T, args[1].T), tyBool}, nil
	case "fresh":
		// allocated during the call
		if err := need(1); err != nil {
			return TV{}, err
		}
		rs := refOf(args[0])
		if len(rs) != 1 {
			return TV{}, fmt.Errorf("fresh() of a value without reference")
		}
		return TV{fmt.Sprintf("(>= %s %s)", rs[0], env.allocOld), tyBool}, nil
	case "allocated":
		rs := refOf(args[0])
		if len(rs) != 1 {
			return TV{}, fmt.Errorf("allocated() of a value without reference")
		}
		return TV{fmt.Sprintf("(and (< 0 %s) (< %s %s))", rs[0], rs[0], env.st.alloc), tyBool}, nil
	case "is":
		// is(x, T): dynamic type of x is T
		if err := need(2); err != nil {
			return TV{}, err
		}
		t := args[1].Ty.(types.Type)
		return TV{e.S.hasType(args[0].T, t), tyBool}, nil
	case "as":
		t := args[1].Ty.(types.Type)
		return TV{e.S.fromVal(args[0].T, t), t}, nil
	case "zero":
		t := args[0].Ty.(types.Type)
		return TV{e.S.zero(t), t}, nil
	case "box":
		if err := need(1); err != nil {
			return TV{}, err
		}
		t, ok := goType(args[0])
		if !ok {
			return TV{}, fmt.Errorf("box of non-Go value")
		}
		return TV{e.S.toVal(args[0].T, t), types.NewInterfaceType(nil, nil)}, nil
	case "typeid":
		t := args[0].Ty.(types.Type)
		return TV{fmt.Sprint(e.S.typeID(t)), tyInt}, nil
	case "tid":
		return TV{"(tid " + args[0].T + ")", tyInt}, nil
	case "isfunc":
		// the dynamic type of an interface value is a function type
		var alts []Term
		for _, id := range sortedTypeIDs(e.S) {
			if _, ok := e.S.typeByID[id].Underlying().(*types.Signature); ok {
				alts = append(alts, fmt.Sprintf("(= (tid %s) %d)", args[0].T, id))
			}
		}
		return TV{and(fmt.Sprintf("((_ is VRef) %s)", args[0].T), or(alts...)), tyBool}, nil
	case "isnil":
		return TV{fmt.Sprintf("((_ is VNil) %s)", args[0].T), tyBool}, nil
	case "locked", "wlocked":
		// locked(p): the mutex embedded in (or a field of) the struct p points to is held - read or write - by this
		// activation (ghost lock state of lock.go); wlocked(p): held for writing
		if err := need(1); err != nil {
			return TV{}, err
		}
		pt, ok := args[0].Ty.(types.Type)
		if !ok {
			return TV{}, fmt.Errorf("%s: not a pointer to a struct", n.Fn)
		}
		ptr, ok := pt.Underlying().(*types.Pointer)
		if !ok {
			return TV{}, fmt.Errorf("%s: not a pointer to a struct", n.Fn)
		}
		key := famPtr(ptr.Elem()) + "|" + string(args[0].T) + "|"
		get := func(kind string) Term {
			if t, ok := env.st.ghost["lk:"+kind+":"+key]; ok {
				return t
			}
			return "0"
		}
		if n.Fn == "wlocked" {
			return TV{fmt.Sprintf("(> %s 0)", get("w")), tyBool}, nil
		}
		return TV{fmt.Sprintf("(or (> %s 0) (> %s 0))", get("w"), get("r")), tyBool}, nil
	case "plain":
		// plain(err): an error value whose Error() method is total (errors.New, fmt.Errorf and the
		// errors of the standard library; NOT a goja exception, whose Error() may panic)
		return TV{fmt.Sprintf("(plainerr %s)", args[0].T), tyBool}, nil
	case "isstr":
		return TV{fmt.Sprintf("((_ is VStr) %s)", args[0].T), tyBool}, nil
	case "ext":
		// ext(a, b): every entry of map a is in map b with the same value
		if err := need(2); err != nil {
			return TV{}, err
		}
		da, va, mt, err := env.mapContent(args[0])
		if err != nil {
			return TV{}, err
		}
		db, vb, _, err := env.mapContent(args[1])
		if err != nil {
			return TV{}, err
		}
		ks := e.S.sortOf(mt.Key())
		return TV{fmt.Sprintf("(or (= %s 0) (forall ((k %s)) (! (=> (select %s k) (and (select %s k) (= (select %s k) (select %s k)))) :pattern ((select %s k)) :pattern ((select %s k)))))", args[0].T, ks, da, db, vb, va, da, db), tyBool}, nil
	case "sameMap":
		da, va, mt, err := env.mapContent(args[0])
		if err != nil {
			return TV{}, err
		}
		db, vb, _, err := env.mapContent(args[1])
		if err != nil {
			return TV{}, err
		}
		ks := e.S.sortOf(mt.Key())
		return TV{fmt.Sprintf("(forall ((k %s)) (! (and (= (select %s k) (select %s k)) (=> (select %s k) (= (select %s k) (select %s k)))) :pattern ((select %s k)) :pattern ((select %s k))))", ks, da, db, da, va, vb, da, db), tyBool}, nil
	case "unchanged":
		// the object has the same contents as at entry (old state)
		var cs []Term
		for _, a := range args {
			c, err := env.unchangedObj(a)
			if err != nil {
				return TV{}, err
			}
			cs = append(cs, c)
		}
		return TV{and(cs...), tyBool}, nil
	case "seen":
		if lit, ok := n.Args[0].(*IntLit); ok && env.seen != nil {
			var k int
			fmt.Sscan(lit.V, &k)
			if tv, ok := env.seen(k); ok {
				return tv, nil
			}
		}
		return TV{}, fmt.Errorf("seen(n): no map range loop %v here", n.Args[0])
	case "keys":
		// keys(m): the domain of map m as a set
		d, _, mt, err := env.mapContent(args[0])
		if err != nil {
			return TV{}, err
		}
		return TV{d, &setTy{mt.Key()}}, nil
	case "errtext":
		// the (uninterpreted) text of an error value
		return TV{"(errtext " + args[0].T + ")", tyString}, nil
	case "str":
		return TV{e.S.toVal(args[0].T, tyString), types.NewInterfaceType(nil, nil)}, nil
	case "implies":
		return TV{implies(args[0].T, args[1].T), tyBool}, nil
	}
	return TV{}, fmt.Errorf("unknown function %s", n.Fn)
}

// unchangedObj: contents of the object denoted by a are the same in st and old.
func (env *Env) unchangedObj(a TV) (Term, error) {
	e := env.e
	t, ok := goType(a)
	if !ok {
		return "", fmt.Errorf("unchanged: not a Go value")
	}
	switch u := t.Underlying().(type) {
	case *types.Map:
		d, vl, c := e.mapFams(t)
		var cs []Term
		for _, f := range []string{d, vl, c} {
			cs = append(cs, fmt.Sprintf("(= (select %s %s) (select %s %s))", e.get(env.st, f), a.T, e.get(env.old, f), a.T))
		}
		return and(cs...), nil
	case *types.Pointer:
		f := e.ptrFam(u.Elem())
		return fmt.Sprintf("(= (select %s %s) (select %s %s))", e.get(env.st, f), a.T, e.get(env.old, f), a.T), nil
	case *types.Slice:
		f := e.elemFam(u.Elem())
		return fmt.Sprintf("(= (select %s (sref %s)) (select %s (sref %s)))", e.get(env.st, f), a.T, e.get(env.old, f), a.T), nil
	}
	return "", fmt.Errorf("unchanged: unsupported type %s", typeStr(t))
}

func flattenName(ex Expr) string {
	switch n := ex.(type) {
	case *Ident:
		return n.Name
	case *Sel:
		return flattenName(n.X) + "." + n.Name
	case *StrLit:
		return n.V
	}
	return "?"
}

func sortedTypeIDs(s *sorts) []int {
	var out []int
	for i := 1; i < len(s.typeByID); i++ {
		out = append(out, i)
	}
	return out
}

// findStaticCallee: the function with extern key `key` that fn (or one of its closures, or a module function without a
// contract that it calls) calls statically, if any.
func (e *enc) findStaticCallee(fn *ssa.Function, key string, seen map[*ssa.Function]bool) *ssa.Function {
	if fn == nil || seen[fn] {
		return nil
	}
	seen[fn] = true
	for _, b := range fn.Blocks {
		for _, in := range b.Instrs {
			if c, ok := in.(ssa.CallInstruction); ok {
				if callee := c.Common().StaticCallee(); callee != nil {
					if externKey(callee) == key {
						return callee
					}
					if k := FuncKey(callee); e.P.Funcs[k] == callee && e.P.Contracts.Funcs[k] == nil {
						if r := e.findStaticCallee(callee, key, seen); r != nil {
							return r
						}
					}
				}
			}
		}
	}
	for _, a := range fn.AnonFuncs {
		if r := e.findStaticCallee(a, key, seen); r != nil {
			return r
		}
	}
	return nil
}

// loopRangeKey: the key type of the map ranged over by the loop with the given ordinal of fn (loops are numbered by header
// block index, as in findLoops); nil if that loop is not a map range.
func loopRangeKey(fn *ssa.Function, ordinal int) types.Type {
	var hs []*ssa.BasicBlock
	seen := map[*ssa.BasicBlock]bool{}
	for _, b := range fn.Blocks {
		for _, s := range b.Succs {
			if s.Dominates(b) && !seen[s] {
				seen[s] = true
				hs = append(hs, s)
			}
		}
	}
	sort.Slice(hs, func(i, j int) bool { return hs[i].Index < hs[j].Index })
	if ordinal < 0 || ordinal >= len(hs) {
		return nil
	}
	for _, in := range hs[ordinal].Instrs {
		if nx, ok := in.(*ssa.Next); ok {
			if rg, ok := nx.Iter.(*ssa.Range); ok {
				if mt, ok := rg.X.Type().Underlying().(*types.Map); ok {
					return mt.Key()
				}
			}
		}
	}
	return nil
}

// findInvoke: the signature of the interface method with contract key `key` that fn (or one of its closures) invokes, if any.
func findInvoke(fn *ssa.Function, key string, seen map[*ssa.Function]bool) *types.Signature {
	if fn == nil || seen[fn] {
		return nil
	}
	seen[fn] = true
	for _, b := range fn.Blocks {
		for _, in := range b.Instrs {
			if c, ok := in.(ssa.CallInstruction); ok {
				if com := c.Common(); com.IsInvoke() && ifaceKey(com) == key {
					return com.Signature()
				}
			}
		}
	}
	for _, a := range fn.AnonFuncs {
		if r := findInvoke(a, key, seen); r != nil {
			return r
		}
	}
	return nil
}
