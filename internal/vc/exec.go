package vc

import (
	"fmt"
	"go/ast"
	"go/token"
	"go/types"
	"sort"
	"strings"

	"golang.org/x/tools/go/ssa"
)

// lval is an addressable location.
type lval struct {
	elem  bool // element of a slice/array backing store (family E:T) rather than a pointer cell (H:T)
	fam   string
	ref   Term
	idx   Term
	rootT types.Type
	path  []pathStep
	t     types.Type
}

type pathStep struct {
	structT types.Type
	field   int
}

type closureInfo struct {
	fn       *ssa.Function
	bindings []ssa.Value
}

type retInfo struct {
	reach Term
	st    *State
	vals  []Term
	pos   string
	blk   *ssa.BasicBlock
}

type rangeRec struct {
	instr   *ssa.Range
	mapT    types.Type
	m       Term
	domAt   Term // dom array of the map at range start
	ghost   string
	mutated bool
}

type loopInfo struct {
	header  *ssa.BasicBlock
	ordinal int
	blocks  []*ssa.BasicBlock
	inLoop  map[*ssa.BasicBlock]bool
	back    []*ssa.BasicBlock // sources of back edges
	// filled at the header
	entryState *State
	headState  *State
	entryCond  Term
	phiConst   map[*ssa.Phi]Term
	decHead    Term
}

// fx is one activation (the unit itself or an inlined callee).
type fx struct {
	e        *enc
	fn       *ssa.Function
	fc       *FuncContract
	depth    int
	top      bool
	vals     map[ssa.Value]Term
	guarded  map[ssa.Value]*guardedVal
	tuples   map[ssa.Value][]Term
	lvs      map[ssa.Value]*lval
	clos     map[ssa.Value]*closureInfo
	reach    map[*ssa.BasicBlock]Term
	out      map[*ssa.BasicBlock]*State
	edge     map[[2]int]Term
	rets     []retInfo
	dbg      map[ssa.Value]string
	dbgRefs  []*ssa.DebugRef
	loops    map[*ssa.BasicBlock]*loopInfo
	loopOrd  []*loopInfo
	ranges   map[*ssa.Range]*rangeRec
	entry    *State
	params   map[string]TV
	tag      string // suffix for obligations of inlined activations
	locals   []Term // refs of non-escaped local allocations
	escaped  map[ssa.Value]bool
	defers   []*ssa.Defer
	cur      *State
	curReach Term
	callLog  map[string]int
}

func (e *enc) newFx(fn *ssa.Function, depth int) *fx {
	x := &fx{e: e, fn: fn, depth: depth, vals: map[ssa.Value]Term{}, tuples: map[ssa.Value][]Term{}, lvs: map[ssa.Value]*lval{},
		clos: map[ssa.Value]*closureInfo{}, reach: map[*ssa.BasicBlock]Term{}, out: map[*ssa.BasicBlock]*State{}, edge: map[[2]int]Term{},
		dbg: map[ssa.Value]string{}, loops: map[*ssa.BasicBlock]*loopInfo{}, ranges: map[*ssa.Range]*rangeRec{}, params: map[string]TV{},
		escaped: map[ssa.Value]bool{}, callLog: map[string]int{}}
	x.fc = e.P.Contracts.Funcs[FuncKey(fn)]
	for _, b := range fn.Blocks {
		for _, in := range b.Instrs {
			if d, ok := in.(*ssa.DebugRef); ok {
				x.dbgRefs = append(x.dbgRefs, d)
				if id, ok := d.Expr.(*ast.Ident); ok && !d.IsAddr {
					if v, isVar := d.Object().(*types.Var); isVar && v.IsField() {
						continue
					}
					if _, have := x.dbg[d.X]; !have {
						nm := id.Name
						if o, renamed := aliasesOf(fn).rev[nm]; renamed {
							nm = o // contract labels (onwrite, calls ... as) speak of the recorded name
						}
						x.dbg[d.X] = nm
					}
				}
			}
		}
	}
	x.findLoops()
	x.findEscapes()
	return x
}

func (x *fx) pos(p token.Pos) string {
	if !p.IsValid() {
		return ""
	}
	ps := x.e.P.Fset.Position(p)
	return fmt.Sprintf("%s:%d", strings.TrimPrefix(ps.Filename, x.e.P.RepoDir+"/"), ps.Line)
}

// ---------- loops ----------

func (x *fx) findLoops() {
	fn := x.fn
	for _, b := range fn.Blocks {
		for _, s := range b.Succs {
			if s.Dominates(b) {
				li := x.loops[s]
				if li == nil {
					li = &loopInfo{header: s, inLoop: map[*ssa.BasicBlock]bool{s: true}}
					x.loops[s] = li
				}
				li.back = append(li.back, b)
				// natural loop: blocks reaching b without passing through s
				var stack []*ssa.BasicBlock
				if !li.inLoop[b] {
					li.inLoop[b] = true
					stack = append(stack, b)
				}
				for len(stack) > 0 {
					n := stack[len(stack)-1]
					stack = stack[:len(stack)-1]
					for _, p := range n.Preds {
						if !li.inLoop[p] {
							li.inLoop[p] = true
							stack = append(stack, p)
						}
					}
				}
			}
		}
	}
	var hs []*ssa.BasicBlock
	for h := range x.loops {
		hs = append(hs, h)
	}
	sort.Slice(hs, func(i, j int) bool { return hs[i].Index < hs[j].Index })
	for i, h := range hs {
		li := x.loops[h]
		li.ordinal = i
		for _, b := range x.fn.Blocks {
			if li.inLoop[b] {
				li.blocks = append(li.blocks, b)
			}
		}
		x.loopOrd = append(x.loopOrd, li)
	}
}

func (x *fx) isBackEdge(from, to *ssa.BasicBlock) bool {
	return to.Dominates(from)
}

// topo returns the blocks in a topological order of the CFG without back edges.
func (x *fx) topo() []*ssa.BasicBlock {
	var order []*ssa.BasicBlock
	seen := map[*ssa.BasicBlock]bool{}
	var dfs func(b *ssa.BasicBlock)
	dfs = func(b *ssa.BasicBlock) {
		seen[b] = true
		for _, s := range b.Succs {
			if !seen[s] && !x.isBackEdge(b, s) {
				dfs(s)
			}
		}
		order = append(order, b)
	}
	if len(x.fn.Blocks) > 0 {
		dfs(x.fn.Blocks[0])
	}
	for i, j := 0, len(order)-1; i < j; i, j = i+1, j-1 {
		order[i], order[j] = order[j], order[i]
	}
	return order
}

// ---------- escape scan for local allocations ----------

func (x *fx) findEscapes() {
	// a value escapes if it (or an alias of it) is stored, passed, captured, returned or boxed
	var mark func(v ssa.Value)
	mark = func(v ssa.Value) {
		if v == nil || x.escaped[v] {
			return
		}
		x.escaped[v] = true
		switch t := v.(type) {
		case *ssa.Phi:
			for _, ed := range t.Edges {
				mark(ed)
			}
		case *ssa.ChangeType:
			mark(t.X)
		case *ssa.Convert:
			mark(t.X)
		case *ssa.Slice:
			mark(t.X)
		}
	}
	for _, b := range x.fn.Blocks {
		for _, in := range b.Instrs {
			switch i := in.(type) {
			case *ssa.Store:
				mark(i.Val)
			case *ssa.MapUpdate:
				mark(i.Value)
				mark(i.Key)
			case *ssa.MakeInterface:
				mark(i.X)
			case *ssa.MakeClosure:
				for _, bv := range i.Bindings {
					mark(bv)
				}
			case *ssa.Return:
				for _, r := range i.Results {
					mark(r)
				}
			case *ssa.Send:
				mark(i.X)
			case ssa.CallInstruction:
				com := i.Common()
				if bi, ok := com.Value.(*ssa.Builtin); ok {
					switch bi.Name() {
					case "len", "cap", "delete":
						continue
					}
				}
				for _, a := range com.Args {
					mark(a)
				}
				if !com.IsInvoke() {
					mark(com.Value)
				}
			}
		}
	}
	// propagate: a phi/changetype of an escaped value... (aliases that escape make the source escape)
	changed := true
	for changed {
		changed = false
		for _, b := range x.fn.Blocks {
			for _, in := range b.Instrs {
				v, ok := in.(ssa.Value)
				if !ok || !x.escaped[v] {
					continue
				}
				var srcs []ssa.Value
				switch t := v.(type) {
				case *ssa.Phi:
					srcs = t.Edges
				case *ssa.ChangeType:
					srcs = []ssa.Value{t.X}
				case *ssa.Slice:
					srcs = []ssa.Value{t.X}
				}
				for _, s := range srcs {
					if !x.escaped[s] {
						x.escaped[s] = true
						changed = true
					}
				}
			}
		}
	}
}

// ---------- values ----------

func (x *fx) val(v ssa.Value) Term {
	if t, ok := x.vals[v]; ok {
		return t
	}
	e := x.e
	switch c := v.(type) {
	case *ssa.Const:
		if c.Value == nil {
			return e.S.zero(c.Type())
		}
		if isInterface(c.Type()) {
			return "VNil"
		}
		return e.S.constTerm(c.Value, c.Type())
	case *ssa.Global:
		return e.globalRef(c)
	case *ssa.Function:
		return e.funcRef(c)
	case *ssa.Builtin:
		return "0"
	}
	if lv, ok := x.lvs[v]; ok {
		// an interior pointer used as a value: not representable
		_ = lv
		e.note("interior pointer used as a value in " + x.fn.Name() + ": " + v.Name())
		t := e.declare("iptr", "Int")
		x.vals[v] = t
		return t
	}
	// unknown (e.g. value defined in an unprocessed block)
	e.note("undefined SSA value " + v.Name() + " in " + x.fn.Name())
	t := e.declare("undef", e.S.sortOf(v.Type()))
	x.vals[v] = t
	return t
}

func (e *enc) globalRef(g *ssa.Global) Term {
	k := "G:" + shortPkg(g.Pkg.Pkg.Path()) + "." + g.Name()
	if t, ok := e.globals[k]; ok {
		return t
	}
	t := q(k)
	// declared in the header section (before any line that uses it)
	e.emit(fmt.Sprintf("(declare-const %s Int)", t))
	e.assume(fmt.Sprintf("(and (< 0 %s) (< %s %s))", t, t, q("alloc@0")))
	// distinct from other globals
	var others []string
	for _, o := range e.globals {
		others = append(others, o)
	}
	sort.Strings(others)
	for _, o := range others {
		e.assume(fmt.Sprintf("(not (= %s %s))", t, o))
	}
	e.globals[k] = t
	return t
}

func (e *enc) funcRef(f *ssa.Function) Term {
	k := "Fn:" + f.String()
	if t, ok := e.funcRefs[k]; ok {
		return t
	}
	t := q(k)
	e.emit(fmt.Sprintf("(declare-const %s Int)", t))
	e.assume(fmt.Sprintf("(and (< 0 %s) (< %s %s))", t, t, q("alloc@0")))
	e.funcRefs[k] = t
	e.fnByRef[t] = f
	return t
}

// describeValue gives a stable, source-level description of an SSA value.
var dbgCache = map[*ssa.Function]map[ssa.Value]string{}

func describeValue(fn *ssa.Function, v ssa.Value) string {
	dbg, ok := dbgCache[fn]
	if !ok {
		dbg = map[ssa.Value]string{}
		for _, b := range fn.Blocks {
			for _, in := range b.Instrs {
				if d, ok := in.(*ssa.DebugRef); ok {
					if id, ok := d.Expr.(*ast.Ident); ok && !d.IsAddr {
						if _, have := dbg[d.X]; !have {
							nm := id.Name
							if o, renamed := aliasesOf(fn).rev[nm]; renamed {
								nm = o
							}
							dbg[d.X] = nm
						}
					}
				}
			}
		}
		dbgCache[fn] = dbg
	}
	return describeWith(dbg, v, 0)
}

func (x *fx) describe(v ssa.Value) string { return describeWith(x.dbg, v, 0) }

func describeWith(dbg map[ssa.Value]string, v ssa.Value, depth int) string {
	if depth > 6 {
		return "…"
	}
	switch t := v.(type) {
	case *ssa.Parameter:
		return t.Name()
	case *ssa.FreeVar:
		return t.Name()
	case *ssa.Global:
		return t.Name()
	case *ssa.Function:
		return t.Name()
	case *ssa.Const:
		if t.Value == nil {
			return "nil"
		}
		return t.Value.String()
	}
	switch t := v.(type) {
	case *ssa.UnOp:
		if t.Op == token.MUL {
			return describeAddr(dbg, t.X, depth+1)
		}
	}
	if dbg != nil {
		if n, ok := dbg[v]; ok {
			return n
		}
	}
	switch t := v.(type) {
	case *ssa.Phi:
		if t.Comment != "" {
			return t.Comment
		}
	case *ssa.Alloc:
		if t.Comment != "" {
			return "&" + t.Comment
		}
	case *ssa.Call:
		if f := t.Call.StaticCallee(); f != nil {
			return f.Name() + "()"
		}
		if t.Call.IsInvoke() {
			return describeWith(dbg, t.Call.Value, depth+1) + "." + t.Call.Method.Name() + "()"
		}
		return describeWith(dbg, t.Call.Value, depth+1) + "()"
	case *ssa.Extract:
		return describeWith(dbg, t.Tuple, depth+1) + "#" + fmt.Sprint(t.Index)
	case *ssa.FieldAddr, *ssa.IndexAddr:
		return "&" + describeAddr(dbg, v, depth+1)
	case *ssa.ChangeType:
		return describeWith(dbg, t.X, depth+1)
	case *ssa.MakeInterface:
		return describeWith(dbg, t.X, depth+1)
	case *ssa.TypeAssert:
		return describeWith(dbg, t.X, depth+1) + ".(" + typeStr(t.AssertedType) + ")"
	case *ssa.Lookup:
		return describeWith(dbg, t.X, depth+1) + "[" + describeWith(dbg, t.Index, depth+1) + "]"
	case *ssa.Slice:
		return describeWith(dbg, t.X, depth+1) + "[:]"
	case *ssa.Field:
		return describeWith(dbg, t.X, depth+1) + "." + t.X.Type().Underlying().(*types.Struct).Field(t.Field).Name()
	case *ssa.Next:
		return "next"
	case *ssa.MakeMap:
		return "make(map)"
	case *ssa.MakeSlice:
		return "make(slice)"
	}
	return v.Name()
}

func describeAddr(dbg map[ssa.Value]string, a ssa.Value, depth int) string {
	switch t := a.(type) {
	case *ssa.FieldAddr:
		st := t.X.Type().Underlying().(*types.Pointer).Elem().Underlying().(*types.Struct)
		base := describeWith(dbg, t.X, depth+1)
		base = strings.TrimPrefix(base, "&")
		return base + "." + st.Field(t.Field).Name()
	case *ssa.IndexAddr:
		return strings.TrimPrefix(describeWith(dbg, t.X, depth+1), "&") + "[" + describeWith(dbg, t.Index, depth+1) + "]"
	case *ssa.Alloc:
		if t.Comment != "" {
			return t.Comment
		}
	case *ssa.Global:
		return t.Name()
	case *ssa.FreeVar:
		return t.Name()
	}
	return "*" + describeWith(dbg, a, depth+1)
}

// ---------- lvalues ----------

func (x *fx) lvalOf(a ssa.Value) *lval {
	if lv, ok := x.lvs[a]; ok {
		return lv
	}
	pt, ok := a.Type().Underlying().(*types.Pointer)
	if !ok {
		panic("lvalOf: not a pointer: " + a.String())
	}
	el := pt.Elem()
	if at, ok := el.Underlying().(*types.Array); ok {
		// pointer to array: the whole backing store; only indexable
		return &lval{elem: true, fam: x.e.elemFam(at.Elem()), ref: x.val(a), idx: "", rootT: at.Elem(), t: el}
	}
	return &lval{fam: x.e.ptrFam(el), ref: x.val(a), rootT: el, t: el}
}

func (x *fx) loadRoot(st *State, lv *lval) Term {
	h := x.e.get(st, lv.fam)
	if lv.elem {
		return fmt.Sprintf("(select (select %s %s) %s)", h, lv.ref, lv.idx)
	}
	return fmt.Sprintf("(select %s %s)", h, lv.ref)
}

func (x *fx) load(st *State, lv *lval) Term {
	if lv.elem && lv.idx == "" {
		// whole array value
		return fmt.Sprintf("(select %s %s)", x.e.get(st, lv.fam), lv.ref)
	}
	t := x.loadRoot(st, lv)
	for _, p := range lv.path {
		t = fmt.Sprintf("(%s %s)", x.e.S.fieldAcc(p.structT, p.field), t)
	}
	return t
}

func (x *fx) store(st *State, lv *lval, v Term) {
	e := x.e
	if lv.elem && lv.idx == "" {
		h := e.get(st, lv.fam)
		e.set(st, lv.fam, fmt.Sprintf("(store %s %s %s)", h, lv.ref, v))
		return
	}
	root := x.loadRoot(st, lv)
	// rebuild along the path
	var rebuild func(cur Term, path []pathStep) Term
	rebuild = func(cur Term, path []pathStep) Term {
		if len(path) == 0 {
			return v
		}
		p := path[0]
		inner := fmt.Sprintf("(%s %s)", e.S.fieldAcc(p.structT, p.field), cur)
		return e.S.withField(p.structT, cur, p.field, rebuild(inner, path[1:]))
	}
	nv := rebuild(root, lv.path)
	h := e.get(st, lv.fam)
	if lv.elem {
		e.set(st, lv.fam, fmt.Sprintf("(store %s %s (store (select %s %s) %s %s))", h, lv.ref, h, lv.ref, lv.idx, nv))
	} else {
		e.set(st, lv.fam, fmt.Sprintf("(store %s %s %s)", h, lv.ref, nv))
	}
}

// ---------- safety obligations ----------

func (x *fx) safety(class, desc string, goal Term, p token.Pos) {
	if goal == "true" {
		return
	}
	if class == "panic" {
		if root := x.rootContract(); root != nil && root.Recovered {
			x.e.trusted["explicit panics in "+x.e.unitName+" are recovered by the caller (RunProgram's deferred recover)"] = true
			return
		}
	}
	var props []string
	root := x
	_ = root
	props = x.e.safetyProps
	if len(props) == 0 {
		return
	}
	name := class + ":" + desc
	if x.tag != "" {
		name += "@" + x.tag
	}
	x.e.oblig(class, name, props, x.curReach, goal, x.pos(p), class+" of "+desc)
}

// writeTarget emits the write-freedom obligation for a write to object ref:
// it was allocated during this activation of the unit, or it is listed in the
// unit's `writes` clause.
func (x *fx) writeTarget(ref Term, desc string, p token.Pos) {
	e := x.e
	if !e.wfree {
		return
	}
	alts := []Term{fmt.Sprintf("(>= %s %s)", ref, e.entryState.alloc), fmt.Sprintf("(= %s 0)", ref)}
	for _, w := range e.writeRefs {
		alts = append(alts, fmt.Sprintf("(= %s %s)", ref, w))
	}
	name := "write-target:" + desc
	if x.tag != "" {
		name += "@" + x.tag
	}
	e.oblig("write-target", name, e.writeProps, x.curReach, or(alts...), x.pos(p), "write to "+desc+" hits a fresh object or one listed in the writes clause")
}

// ---------- running ----------

// run executes the function from the given entry state; args are the
// parameter terms. It fills x.rets.
func (x *fx) run(args []Term, freeVars []Term, st *State, reach Term) {
	e := x.e
	fn := x.fn
	x.entry = st.clone()
	for i, p := range fn.Params {
		x.vals[p] = args[i]
		x.params[p.Name()] = TV{T: args[i], Ty: p.Type()}
	}
	for i, fv := range fn.FreeVars {
		if i < len(freeVars) {
			x.vals[fv] = freeVars[i]
		} else {
			t := e.declare("fv:"+fv.Name(), e.S.sortOf(fv.Type()))
			e.assumeWF(t, fv.Type(), st.alloc)
			x.vals[fv] = t
		}
		x.params[fv.Name()] = TV{T: x.vals[fv], Ty: fv.Type()}
		if o, renamed := aliasesOf(fn).rev[fv.Name()]; renamed {
			x.params[o] = x.params[fv.Name()] // a renamed captured variable keeps its recorded name in contracts
		}
	}
	order := x.topo()
	for _, b := range order {
		x.runBlock(b, st, reach)
	}
}

func (x *fx) edgeCondOf(p *ssa.BasicBlock, succIdx int) Term {
	r := x.reach[p]
	last := p.Instrs[len(p.Instrs)-1]
	if iff, ok := last.(*ssa.If); ok {
		c := x.val(iff.Cond)
		if succIdx == 0 {
			return and(r, c)
		}
		return and(r, not(c))
	}
	return r
}

func succIndex(p, b *ssa.BasicBlock) []int {
	var out []int
	for i, s := range p.Succs {
		if s == b {
			out = append(out, i)
		}
	}
	return out
}

func (x *fx) runBlock(b *ssa.BasicBlock, entrySt *State, entryReach Term) {
	e := x.e
	var st *State
	var reach Term
	var preds []*ssa.BasicBlock
	var conds []Term
	if b.Index == 0 {
		st = entrySt.clone()
		reach = entryReach
	} else {
		var states []*State
		for _, p := range b.Preds {
			if x.isBackEdge(p, b) {
				continue
			}
			if _, done := x.out[p]; !done {
				continue // unreachable predecessor
			}
			var cs []Term
			for _, si := range succIndex(p, b) {
				cs = append(cs, x.edgeCondOf(p, si))
			}
			c := or(cs...)
			preds = append(preds, p)
			conds = append(conds, c)
			states = append(states, x.out[p])
		}
		if len(preds) == 0 {
			return // unreachable block
		}
		reach = e.define("reach:"+fmt.Sprint(b.Index), "Bool", or(conds...))
		st = e.merge(conds, states)
	}
	li := x.loops[b]
	if li != nil {
		st, reach = x.loopHead(li, b, st, reach, preds, conds)
	}
	x.reach[b] = reach
	x.cur = st
	x.curReach = reach
	for _, in := range b.Instrs {
		if ph, ok := in.(*ssa.Phi); ok {
			if li != nil {
				continue // set by loopHead
			}
			var ts []Term
			for _, p := range preds {
				for i, bp := range b.Preds {
					if bp == p {
						ts = append(ts, x.val(ph.Edges[i]))
						break
					}
				}
			}
			if len(ts) == 0 {
				continue
			}
			x.vals[ph] = e.define(ph.Name(), e.S.sortOf(ph.Type()), iteChain(conds, ts))
			continue
		}
		x.instr(in)
	}
	x.out[b] = x.cur
	// back edges leaving this block: prove the invariants
	for si, s := range b.Succs {
		if x.isBackEdge(b, s) {
			if l2 := x.loops[s]; l2 != nil {
				x.loopBack(l2, b, x.edgeCondOf(b, si))
			}
		}
	}
}

// framedSpec builds the havoc spec of an Effects value.
func (x *fx) specOf(eff *Effects, why string) *havocSpec {
	sp := &havocSpec{affects: map[string]bool{}, writes: map[string]bool{}, why: why}
	if eff.All {
		sp.all = true
		sp.writesAll = true
		sp.keepRefs = append([]Term{}, x.locals...)
		if eff.Why != "" {
			sp.why = eff.Why
		}
		return sp
	}
	if eff.AllocAll {
		sp.all = true
	}
	for k := range eff.Writes {
		sp.affects[k] = true
		sp.writes[k] = true
	}
	for k := range eff.Allocs {
		sp.affects[k] = true
	}
	return sp
}
