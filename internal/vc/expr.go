package vc

import (
	"fmt"
	"strings"
	"unicode"
)

// Contract expression AST.
type Expr interface{}

type (
	Ident   struct{ Name string }
	IntLit  struct{ V string }
	RealLit struct{ V string }
	StrLit  struct{ V string }
	BoolLit struct{ V bool }
	NilLit  struct{}
	Unary   struct {
		Op string
		X  Expr
	}
	Binary struct {
		Op   string
		X, Y Expr
	}
	Cond struct{ C, A, B Expr }
	Call struct {
		Fn   string
		Args []Expr
	}
	Sel struct {
		X    Expr
		Name string
	}
	Index  struct{ X, I Expr }
	SliceE struct{ X, Lo, Hi Expr }
	Assert struct { // x.(T)
		X Expr
		T string
	}
	QVar struct {
		Name string
		Type string
	}
	Quant struct {
		Forall bool
		Vars   []QVar
		Body   Expr
	}
	TypeArg struct{ T string }
)

type ltoken struct {
	kind string // id, int, real, str, char, op, eof
	s    string
	pos  int
}

type lexer struct {
	src  string
	toks []ltoken
}

var ops = []string{"<==>", "==>", "::", "||", "&&", "==", "!=", "<=", ">=", "<", ">", "+", "-", "*", "/", "%", "!", "(", ")", "[", "]", "{", "}", ",", ":", "?", "."}

func lex(src string) ([]ltoken, error) {
	var toks []ltoken
	i := 0
	for i < len(src) {
		c := rune(src[i])
		if unicode.IsSpace(c) {
			i++
			continue
		}
		if unicode.IsLetter(c) || c == '_' {
			j := i
			for j < len(src) && (unicode.IsLetter(rune(src[j])) || unicode.IsDigit(rune(src[j])) || src[j] == '_') {
				j++
			}
			toks = append(toks, ltoken{"id", src[i:j], i})
			i = j
			continue
		}
		if unicode.IsDigit(c) {
			j := i
			kind := "int"
			for j < len(src) && (unicode.IsDigit(rune(src[j])) || (src[j] == '.' && j+1 < len(src) && unicode.IsDigit(rune(src[j+1])))) {
				if src[j] == '.' {
					kind = "real"
				}
				j++
			}
			toks = append(toks, ltoken{kind, src[i:j], i})
			i = j
			continue
		}
		if c == '"' {
			j := i + 1
			var sb strings.Builder
			for j < len(src) && src[j] != '"' {
				if src[j] == '\\' && j+1 < len(src) {
					j++
					switch src[j] {
					case 'n':
						sb.WriteByte('\n')
					case 't':
						sb.WriteByte('\t')
					default:
						sb.WriteByte(src[j])
					}
				} else {
					sb.WriteByte(src[j])
				}
				j++
			}
			if j >= len(src) {
				return nil, fmt.Errorf("unterminated string at %d", i)
			}
			toks = append(toks, ltoken{"str", sb.String(), i})
			i = j + 1
			continue
		}
		if c == '\'' {
			if i+2 < len(src) && src[i+2] == '\'' {
				toks = append(toks, ltoken{"int", fmt.Sprint(int(src[i+1])), i})
				i += 3
				continue
			}
			return nil, fmt.Errorf("bad char literal at %d", i)
		}
		matched := false
		for _, op := range ops {
			if strings.HasPrefix(src[i:], op) {
				toks = append(toks, ltoken{"op", op, i})
				i += len(op)
				matched = true
				break
			}
		}
		if !matched {
			return nil, fmt.Errorf("unexpected character %q at %d", c, i)
		}
	}
	toks = append(toks, ltoken{"eof", "", len(src)})
	return toks, nil
}

type parser struct {
	toks []ltoken
	p    int
	src  string
}

func ParseExpr(src string) (Expr, error) {
	toks, err := lex(src)
	if err != nil {
		return nil, err
	}
	ps := &parser{toks: toks, src: src}
	e, err := ps.parseTop()
	if err != nil {
		return nil, err
	}
	if ps.peek().kind != "eof" {
		return nil, fmt.Errorf("unexpected %q at %d", ps.peek().s, ps.peek().pos)
	}
	return e, nil
}

func (p *parser) peek() ltoken { return p.toks[p.p] }
func (p *parser) next() ltoken  { t := p.toks[p.p]; p.p++; return t }
func (p *parser) isOp(s string) bool {
	t := p.peek()
	return t.kind == "op" && t.s == s
}
func (p *parser) isID(s string) bool {
	t := p.peek()
	return t.kind == "id" && t.s == s
}
func (p *parser) expectOp(s string) error {
	if !p.isOp(s) {
		return fmt.Errorf("expected %q at %d, got %q", s, p.peek().pos, p.peek().s)
	}
	p.next()
	return nil
}

// parseTop: quantifiers and <==>, ==> (lowest precedence)
func (p *parser) parseTop() (Expr, error) {
	if p.isID("forall") || p.isID("exists") {
		fa := p.next().s == "forall"
		var vars []QVar
		for {
			if p.peek().kind != "id" {
				return nil, fmt.Errorf("quantifier: expected variable at %d", p.peek().pos)
			}
			name := p.next().s
			ty, err := p.parseTypeText()
			if err != nil {
				return nil, err
			}
			vars = append(vars, QVar{name, ty})
			if p.isOp(",") {
				p.next()
				continue
			}
			break
		}
		if err := p.expectOp("::"); err != nil {
			return nil, err
		}
		body, err := p.parseTop()
		if err != nil {
			return nil, err
		}
		return &Quant{Forall: fa, Vars: vars, Body: body}, nil
	}
	return p.parseIff()
}

func (p *parser) parseIff() (Expr, error) {
	x, err := p.parseImp()
	if err != nil {
		return nil, err
	}
	for p.isOp("<==>") {
		p.next()
		y, err := p.parseImp()
		if err != nil {
			return nil, err
		}
		x = &Binary{"<==>", x, y}
	}
	return x, nil
}

func (p *parser) parseImp() (Expr, error) {
	x, err := p.parseCond()
	if err != nil {
		return nil, err
	}
	if p.isOp("==>") {
		p.next()
		var y Expr
		if p.isID("forall") || p.isID("exists") {
			y, err = p.parseTop()
		} else {
			y, err = p.parseImp()
		}
		if err != nil {
			return nil, err
		}
		return &Binary{"==>", x, y}, nil
	}
	return x, nil
}

func (p *parser) parseCond() (Expr, error) {
	c, err := p.parseBin(0)
	if err != nil {
		return nil, err
	}
	if p.isOp("?") {
		p.next()
		a, err := p.parseCond()
		if err != nil {
			return nil, err
		}
		if err := p.expectOp(":"); err != nil {
			return nil, err
		}
		b, err := p.parseCond()
		if err != nil {
			return nil, err
		}
		return &Cond{c, a, b}, nil
	}
	return c, nil
}

var binPrec = map[string]int{"||": 1, "&&": 2, "==": 3, "!=": 3, "<": 3, "<=": 3, ">": 3, ">=": 3, "in": 3, "+": 4, "-": 4, "*": 5, "/": 5, "%": 5}

func (p *parser) parseBin(min int) (Expr, error) {
	x, err := p.parseUnary()
	if err != nil {
		return nil, err
	}
	for {
		t := p.peek()
		op := ""
		if t.kind == "op" {
			op = t.s
		} else if t.kind == "id" && t.s == "in" {
			op = "in"
		}
		prec, ok := binPrec[op]
		if !ok || prec < min+1 && prec <= min {
			break
		}
		if prec <= min {
			break
		}
		p.next()
		var y Expr
		if (op == "&&" || op == "||") && (p.isID("forall") || p.isID("exists")) {
			y, err = p.parseTop()
		} else {
			y, err = p.parseBin(prec)
		}
		if err != nil {
			return nil, err
		}
		x = &Binary{op, x, y}
	}
	return x, nil
}

func (p *parser) parseUnary() (Expr, error) {
	if p.isOp("!") || p.isOp("-") || p.isOp("*") {
		op := p.next().s
		x, err := p.parseUnary()
		if err != nil {
			return nil, err
		}
		return &Unary{op, x}, nil
	}
	return p.parsePostfix()
}

func (p *parser) parsePostfix() (Expr, error) {
	x, err := p.parsePrimary()
	if err != nil {
		return nil, err
	}
	for {
		switch {
		case p.isOp("."):
			p.next()
			if p.isOp("(") {
				p.next()
				ty, err := p.parseTypeText()
				if err != nil {
					return nil, err
				}
				if err := p.expectOp(")"); err != nil {
					return nil, err
				}
				x = &Assert{x, ty}
				continue
			}
			if p.peek().kind != "id" {
				return nil, fmt.Errorf("expected field name at %d", p.peek().pos)
			}
			x = &Sel{x, p.next().s}
		case p.isOp("["):
			p.next()
			var lo, hi Expr
			if !p.isOp(":") {
				lo, err = p.parseTop()
				if err != nil {
					return nil, err
				}
			}
			if p.isOp(":") {
				p.next()
				if !p.isOp("]") {
					hi, err = p.parseTop()
					if err != nil {
						return nil, err
					}
				}
				if err := p.expectOp("]"); err != nil {
					return nil, err
				}
				x = &SliceE{x, lo, hi}
				continue
			}
			if err := p.expectOp("]"); err != nil {
				return nil, err
			}
			x = &Index{x, lo}
		default:
			return x, nil
		}
	}
}

var typeArgFns = map[string]int{"is": 1, "as": 1, "box": -1, "zero": 0, "typeid": 0}

func (p *parser) parsePrimary() (Expr, error) {
	t := p.next()
	switch t.kind {
	case "int":
		return &IntLit{t.s}, nil
	case "real":
		return &RealLit{t.s}, nil
	case "str":
		return &StrLit{t.s}, nil
	case "id":
		switch t.s {
		case "true":
			return &BoolLit{true}, nil
		case "false":
			return &BoolLit{false}, nil
		case "nil":
			return &NilLit{}, nil
		}
		if p.isOp("(") {
			p.next()
			var args []Expr
			argi := 0
			for !p.isOp(")") {
				if ti, ok := typeArgFns[t.s]; ok && ti == argi {
					ty, err := p.parseTypeText()
					if err != nil {
						return nil, err
					}
					args = append(args, &TypeArg{ty})
				} else {
					a, err := p.parseTop()
					if err != nil {
						return nil, err
					}
					args = append(args, a)
				}
				argi++
				if p.isOp(",") {
					p.next()
					continue
				}
				break
			}
			if err := p.expectOp(")"); err != nil {
				return nil, err
			}
			return &Call{t.s, args}, nil
		}
		return &Ident{t.s}, nil
	case "op":
		if t.s == "(" {
			e, err := p.parseTop()
			if err != nil {
				return nil, err
			}
			if err := p.expectOp(")"); err != nil {
				return nil, err
			}
			return e, nil
		}
	}
	return nil, fmt.Errorf("unexpected %q at %d", t.s, t.pos)
}

// parseTypeText consumes a Go type and returns its source text.
func (p *parser) parseTypeText() (string, error) {
	var sb strings.Builder
	var rec func() error
	rec = func() error {
		t := p.peek()
		switch {
		case t.kind == "op" && t.s == "*":
			p.next()
			sb.WriteString("*")
			return rec()
		case t.kind == "op" && t.s == "[":
			p.next()
			if err := p.expectOp("]"); err != nil {
				return err
			}
			sb.WriteString("[]")
			return rec()
		case t.kind == "id" && t.s == "map":
			p.next()
			if err := p.expectOp("["); err != nil {
				return err
			}
			sb.WriteString("map[")
			if err := rec(); err != nil {
				return err
			}
			if err := p.expectOp("]"); err != nil {
				return err
			}
			sb.WriteString("]")
			return rec()
		case t.kind == "id" && t.s == "interface":
			p.next()
			if err := p.expectOp("{"); err != nil {
				return err
			}
			if err := p.expectOp("}"); err != nil {
				return err
			}
			sb.WriteString("interface{}")
			return nil
		case t.kind == "id":
			p.next()
			sb.WriteString(t.s)
			for p.isOp(".") {
				p.next()
				if p.peek().kind != "id" {
					return fmt.Errorf("bad qualified type at %d", p.peek().pos)
				}
				sb.WriteString(".")
				sb.WriteString(p.next().s)
			}
			return nil
		}
		return fmt.Errorf("expected type at %d, got %q", t.pos, t.s)
	}
	if err := rec(); err != nil {
		return "", err
	}
	return sb.String(), nil
}
