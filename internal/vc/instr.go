package vc

import (
	"fmt"
	"go/token"
	"go/types"
	"strings"

	"golang.org/x/tools/go/ssa"
)

func isFloat(t types.Type) bool {
	b, ok := t.Underlying().(*types.Basic)
	return ok && b.Info()&types.IsFloat != 0
}
func isString(t types.Type) bool {
	b, ok := t.Underlying().(*types.Basic)
	return ok && b.Info()&types.IsString != 0
}
func isInteger(t types.Type) bool {
	b, ok := t.Underlying().(*types.Basic)
	return ok && b.Info()&types.IsInteger != 0
}
func isBool(t types.Type) bool {
	b, ok := t.Underlying().(*types.Basic)
	return ok && b.Info()&types.IsBoolean != 0
}

// newObject allocates a fresh reference.
func (x *fx) newRef() Term {
	e := x.e
	st := x.cur
	r := st.alloc
	st.alloc = e.define("alloc", "Int", fmt.Sprintf("(+ %s 1)", r))
	return r
}

func (x *fx) instr(in ssa.Instruction) {
	e := x.e
	st := x.cur
	switch i := in.(type) {
	case *ssa.DebugRef:
		return
	case *ssa.Alloc:
		el := i.Type().Underlying().(*types.Pointer).Elem()
		r := x.newRef()
		if at, ok := el.Underlying().(*types.Array); ok {
			f := e.elemFam(at.Elem())
			e.set(st, f, fmt.Sprintf("(store %s %s ((as const (Array Int %s)) %s))", e.get(st, f), r, e.S.sortOf(at.Elem()), e.S.zero(at.Elem())))
		} else {
			f := e.ptrFam(el)
			e.set(st, f, fmt.Sprintf("(store %s %s %s)", e.get(st, f), r, e.S.zero(el)))
		}
		x.vals[i] = r
		if !x.escaped[i] {
			x.locals = append(x.locals, r)
		}
	case *ssa.MakeMap:
		r := x.newRef()
		d, _, c := e.mapFams(i.Type())
		m := i.Type().Underlying().(*types.Map)
		e.set(st, d, fmt.Sprintf("(store %s %s ((as const (Array %s Bool)) false))", e.get(st, d), r, e.S.sortOf(m.Key())))
		e.set(st, c, fmt.Sprintf("(store %s %s 0)", e.get(st, c), r))
		if i.Reserve != nil {
			// make with a negative size hint panics only for constants; runtime hint is clamped
		}
		x.vals[i] = r
		if !x.escaped[i] {
			x.locals = append(x.locals, r)
		}
	case *ssa.MakeSlice:
		r := x.newRef()
		sl := i.Type().Underlying().(*types.Slice)
		f := e.elemFam(sl.Elem())
		ln, cp := x.val(i.Len), x.val(i.Cap)
		x.safety("makeslice-len", x.describe(i.Len), fmt.Sprintf("(and (<= 0 %s) (<= %s %s))", ln, ln, cp), i.Pos())
		e.set(st, f, fmt.Sprintf("(store %s %s ((as const (Array Int %s)) %s))", e.get(st, f), r, e.S.sortOf(sl.Elem()), e.S.zero(sl.Elem())))
		x.vals[i] = fmt.Sprintf("(mkSlice %s 0 %s %s)", r, ln, cp)
	case *ssa.MakeChan:
		x.vals[i] = x.newRef()
	case *ssa.MakeClosure:
		r := x.newRef()
		x.vals[i] = r
		x.clos[i] = &closureInfo{fn: i.Fn.(*ssa.Function), bindings: i.Bindings}
		e.closByRef[r] = &closureVal{fn: i.Fn.(*ssa.Function), bindings: x.valsOf(i.Bindings)}
	case *ssa.MakeInterface:
		x.vals[i] = e.S.toVal(x.val(i.X), i.X.Type())
	case *ssa.ChangeInterface:
		x.vals[i] = x.val(i.X)
	case *ssa.ChangeType:
		x.vals[i] = x.val(i.X)
		if c, ok := x.clos[i.X]; ok {
			x.clos[i] = c
		}
	case *ssa.Convert:
		x.convert(i)
	case *ssa.BinOp:
		x.binop(i)
	case *ssa.UnOp:
		x.unop(i)
		x.noteGuardedLoad(i)
	case *ssa.Phi:
		// handled by runBlock
	case *ssa.Extract:
		tp := x.tuples[i.Tuple]
		if tp == nil {
			e.note("extract from unknown tuple in " + x.fn.Name())
			t := e.declare("ext", e.S.sortOf(i.Type()))
			e.assumeWF(t, i.Type(), st.alloc)
			x.vals[i] = t
		} else {
			x.vals[i] = tp[i.Index]
		}
		if tv, ok := i.Tuple.(*ssa.Call); ok {
			_ = tv
		}
	case *ssa.Field:
		x.vals[i] = fmt.Sprintf("(%s %s)", e.S.fieldAcc(i.X.Type(), i.Field), x.val(i.X))
	case *ssa.FieldAddr:
		base := x.lvalOf(i.X)
		if _, interior := x.lvs[i.X]; !interior {
			x.safety("nil-deref", x.describe(i.X), fmt.Sprintf("(not (= %s 0))", base.ref), i.Pos())
		}
		stT := base.t
		fld := stT.Underlying().(*types.Struct).Field(i.Field)
		nl := *base
		nl.path = append(append([]pathStep{}, base.path...), pathStep{stT, i.Field})
		nl.t = fld.Type()
		x.lvs[i] = &nl
	case *ssa.IndexAddr:
		idx := x.val(i.Index)
		switch xt := i.X.Type().Underlying().(type) {
		case *types.Slice:
			s := x.val(i.X)
			x.safety("index", x.describe(i.X)+"["+x.describe(i.Index)+"]", fmt.Sprintf("(and (<= 0 %s) (< %s (slen %s)))", idx, idx, s), i.Pos())
			x.lvs[i] = &lval{elem: true, fam: e.elemFam(xt.Elem()), ref: "(sref " + s + ")", idx: fmt.Sprintf("(+ (soff %s) %s)", s, idx), rootT: xt.Elem(), t: xt.Elem()}
		case *types.Pointer:
			at := xt.Elem().Underlying().(*types.Array)
			base := x.lvalOf(i.X)
			if len(base.path) > 0 || (base.elem && base.idx != "") {
				e.note("array inside struct/array in " + x.fn.Name())
			}
			x.safety("index", x.describe(i.X)+"["+x.describe(i.Index)+"]", fmt.Sprintf("(and (<= 0 %s) (< %s %d))", idx, idx, at.Len()), i.Pos())
			x.lvs[i] = &lval{elem: true, fam: e.elemFam(at.Elem()), ref: base.ref, idx: idx, rootT: at.Elem(), t: at.Elem()}
		}
	case *ssa.Index:
		idx := x.val(i.Index)
		if isString(i.X.Type()) {
			s := x.val(i.X)
			x.safety("index", x.describe(i.X)+"["+x.describe(i.Index)+"]", fmt.Sprintf("(and (<= 0 %s) (< %s (str.len %s)))", idx, idx, s), i.Pos())
			x.vals[i] = fmt.Sprintf("(str.to_code (str.at %s %s))", s, idx)
		} else {
			x.vals[i] = fmt.Sprintf("(select %s %s)", x.val(i.X), idx)
		}
	case *ssa.Lookup:
		x.guardedAccess(i.X, false, i.Pos(), "lookup")
		x.lookup(i)
	case *ssa.MapUpdate:
		x.guardedAccess(i.Map, true, i.Pos(), "update")
		m := x.val(i.Map)
		x.safety("nilmap-write", x.describe(i.Map), fmt.Sprintf("(not (= %s 0))", m), i.Pos())
		x.mapKeyHashable(i.Key, i.Pos())
		x.writeTarget(m, x.describe(i.Map), i.Pos())
		if root := x.rootContract(); root != nil && x.top {
			for _, c := range root.OnWrite[x.describe(i.Map)] {
				if c.Profile != "" && c.Profile != e.profile {
					continue
				}
				oenv := x.envAt(st, i.Block(), nil, true)
				oenv.pkg = e.pkgOf(root)
				oenv.vars["value"] = TV{x.val(i.Value), i.Value.Type()}
				oenv.vars["key"] = TV{x.val(i.Key), i.Key.Type()}
				tv, err := oenv.eval(c.Expr)
				if err != nil {
					e.bindingError(FuncKey(x.fn), c, err)
					continue
				}
				e.oblig("exposure", "exposure:"+x.describe(i.Map)+"["+x.describe(i.Key)+"]", c.Props, x.curReach, tv.T, x.pos(i.Pos()), c.Text)
			}
		}
		x.mapStore(st, i.Map.Type(), m, x.val(i.Key), x.val(i.Value))
	case *ssa.Range:
		x.guardedAccess(i.X, false, i.Pos(), "range")
		if _, ok := i.X.Type().Underlying().(*types.Map); ok {
			d, _, _ := e.mapFams(i.X.Type())
			m := x.val(i.X)
			g := "seen:" + i.Name()
			mt := i.X.Type().Underlying().(*types.Map)
			e.famSort["ghost:"+g] = "(Array " + e.S.sortOf(mt.Key()) + " Bool)"
			st.ghost[g] = fmt.Sprintf("((as const (Array %s Bool)) false)", e.S.sortOf(mt.Key()))
			x.ranges[i] = &rangeRec{instr: i, mapT: i.X.Type(), m: m, domAt: e.pin("domAt", "(Array "+e.S.sortOf(mt.Key())+" Bool)", fmt.Sprintf("(select %s %s)", e.get(st, d), m)), ghost: g}
		} else {
			e.note("range over string in " + x.fn.Name())
		}
		x.vals[i] = "0"
	case *ssa.Next:
		x.next(i)
	case *ssa.Slice:
		x.slice(i)
	case *ssa.Store:
		lv := x.lvalOf(i.Addr)
		if _, interior := x.lvs[i.Addr]; !interior {
			x.safety("nil-deref", x.describe(i.Addr), fmt.Sprintf("(not (= %s 0))", lv.ref), i.Pos())
		}
		x.writeTarget(lv.ref, x.describe(i.Addr), i.Pos())
		x.store(st, lv, x.val(i.Val))
	case *ssa.TypeAssert:
		x.typeAssert(i)
	case *ssa.Call:
		res := x.call(i)
		sig := i.Call.Signature()
		if sig.Results().Len() == 1 {
			x.vals[i] = res[0]
		} else if sig.Results().Len() > 1 {
			x.tuples[i] = res
		}
	case *ssa.Go:
		// a goroutine whose function has a contract is treated as a call of that
		// contract at the spawn point (its effects are confined by its frame);
		// interleavings are not modelled
		handled := false
		var gfn *ssa.Function
		switch cal := i.Call.Value.(type) {
		case *ssa.Function:
			gfn = cal
		case *ssa.MakeClosure:
			gfn = cal.Fn.(*ssa.Function)
		}
		if gfn != nil {
			if gc := e.P.Contracts.Funcs[FuncKey(gfn)]; gc != nil && gc.Deferred {
				// the goroutine cannot take effect before this activation returns (it
				// blocks on a lock this activation holds until its deferred unlock)
				e.note("goroutine " + FuncKey(gfn) + " started in " + x.fn.Name() + ": its effects happen after this activation returns (blocks on the lock held here); not part of this call")
				e.trusted["goroutine "+FuncKey(gfn)+" blocks on the crew lock until the spawning call returns"] = true
				return
			}
			if gc := e.P.Contracts.Funcs[FuncKey(gfn)]; gc != nil && !gc.Inline {
				e.note("goroutine " + FuncKey(gfn) + " started in " + x.fn.Name() + ": treated as a call of its contract at the spawn point (interleavings not modelled)")
				x.call(i)
				handled = true
			}
		}
		if !handled {
			e.note("goroutine started in " + x.fn.Name() + " (body not interleaved; treated as a call with unknown frame)")
			x.unknownEffect(&Effects{All: true, Why: "go statement in " + x.fn.Name()})
		}
	case *ssa.Defer:
		x.defers = append(x.defers, i)
	case *ssa.RunDefers:
		for k := len(x.defers) - 1; k >= 0; k-- {
			d := x.defers[k]
			if d.Block() != x.fn.Blocks[0] && !d.Block().Dominates(i.Block()) {
				e.note("conditional defer in " + x.fn.Name() + " (not modelled)")
				continue
			}
			x.call(d)
		}
	case *ssa.Panic:
		x.safety("panic", x.describe(i.X), "false", i.Pos())
	case *ssa.Return:
		x.rets = append(x.rets, retInfo{reach: x.curReach, st: st.clone(), vals: x.valsOf(i.Results), pos: x.pos(i.Pos()), blk: i.Block()})
	case *ssa.If, *ssa.Jump:
	case *ssa.Send:
		// channels are not part of the heap model: a send changes no heap object
		e.note("channel send in " + x.fn.Name() + " (no heap effect; blocking and interleavings not modelled)")
	case *ssa.Select:
		e.note("select in " + x.fn.Name() + " (no heap effect; which case fires is unconstrained)")
		var ts []Term
		tup := i.Type().(*types.Tuple)
		for k := 0; k < tup.Len(); k++ {
			t := e.declare("sel", e.S.sortOf(tup.At(k).Type()))
			e.assumeWF(t, tup.At(k).Type(), x.cur.alloc)
			ts = append(ts, t)
		}
		x.tuples[i] = ts
	default:
		e.note(fmt.Sprintf("unsupported instruction %T in %s", in, x.fn.Name()))
		if v, ok := in.(ssa.Value); ok {
			t := e.declare("unsup", e.S.sortOf(v.Type()))
			e.assumeWF(t, v.Type(), st.alloc)
			x.vals[v] = t
		}
	}
}

func (x *fx) valsOf(vs []ssa.Value) []Term {
	out := make([]Term, len(vs))
	for i, v := range vs {
		out[i] = x.val(v)
	}
	return out
}

// unknownEffect applies a havoc to the current state.
func (x *fx) unknownEffect(eff *Effects) {
	if x.e.wfree && eff.All {
		x.e.oblig("write-target", "write-target:unknown-effect", x.e.writeProps, x.curReach, "false", "", "effect with unknown written objects: "+eff.Why)
	}
	x.registerEffects(eff)
	sp := x.specOf(eff, eff.Why)
	if eff.All {
		sp.unknown = true
	}
	x.cur = x.e.havoc(x.cur, sp)
}

func (x *fx) registerEffects(eff *Effects) {
	e := x.e
	reg := func(m map[string]famInfo) {
		for _, k := range sortedKeys(m) {
			fi := m[k]
			switch fi.kind {
			case 'H':
				e.ptrFam(fi.t)
			case 'E':
				e.elemFam(fi.t)
			case 'M':
				e.mapFams(fi.t)
			}
		}
	}
	reg(eff.Writes)
	reg(eff.Allocs)
}

func (x *fx) mapKeyHashable(k ssa.Value, p token.Pos) {
	if !isInterface(k.Type()) {
		return
	}
	v := x.val(k)
	// a map, slice or func inside an interface key panics when hashed
	var bad []Term
	bad = append(bad, fmt.Sprintf("((_ is VSlice) %s)", v))
	for key, id := range x.e.S.typeIDs {
		_ = key
		t := x.e.S.typeByID[id]
		switch t.Underlying().(type) {
		case *types.Map, *types.Signature:
			bad = append(bad, fmt.Sprintf("(= (tid %s) %d)", v, id))
		}
	}
	x.safety("unhashable-key", x.describe(k), not(or(bad...)), p)
}

func (x *fx) mapStore(st *State, mt types.Type, m, k, v Term) {
	e := x.e
	d, vl, c := e.mapFams(mt)
	dom, val, card := e.get(st, d), e.get(st, vl), e.get(st, c)
	e.set(st, c, fmt.Sprintf("(store %s %s (+ (select %s %s) (ite (select (select %s %s) %s) 0 1)))", card, m, card, m, dom, m, k))
	e.set(st, d, fmt.Sprintf("(store %s %s (store (select %s %s) %s true))", dom, m, dom, m, k))
	e.set(st, vl, fmt.Sprintf("(store %s %s (store (select %s %s) %s %s))", val, m, val, m, k, v))
}

func (x *fx) mapDelete(st *State, mt types.Type, m, k Term) {
	e := x.e
	d, _, c := e.mapFams(mt)
	dom, card := e.get(st, d), e.get(st, c)
	// delete on a nil map is a no-op; ref 0 is never read as a map with content
	e.set(st, c, fmt.Sprintf("(store %s %s (- (select %s %s) (ite (select (select %s %s) %s) 1 0)))", card, m, card, m, dom, m, k))
	e.set(st, d, fmt.Sprintf("(store %s %s (store (select %s %s) %s false))", dom, m, dom, m, k))
}

// mapLen yields len(m) with the cardinality facts instantiated.
func (x *fx) mapLen(st *State, mt types.Type, m Term) Term {
	e := x.e
	_, _, c := e.mapFams(mt)
	card := e.get(st, c)
	t := fmt.Sprintf("(ite (= %s 0) 0 (select %s %s))", m, card, m)
	e.assume(fmt.Sprintf("(>= (select %s %s) 0)", card, m))
	d, _, _ := e.mapFams(mt)
	ks := e.S.sortOf(mt.Underlying().(*types.Map).Key())
	dom := e.get(st, d)
	e.assume(fmt.Sprintf("(=> (= (select %s %s) 0) (forall ((k %s)) (! (not (select (select %s %s) k)) :pattern ((select (select %s %s) k)))))", card, m, ks, dom, m, dom, m))
	return t
}

func (x *fx) lookup(i *ssa.Lookup) {
	e := x.e
	st := x.cur
	if isString(i.X.Type()) {
		s, idx := x.val(i.X), x.val(i.Index)
		x.safety("index", x.describe(i.X)+"["+x.describe(i.Index)+"]", fmt.Sprintf("(and (<= 0 %s) (< %s (str.len %s)))", idx, idx, s), i.Pos())
		x.vals[i] = fmt.Sprintf("(str.to_code (str.at %s %s))", s, idx)
		return
	}
	mt := i.X.Type().Underlying().(*types.Map)
	d, vl, _ := e.mapFams(i.X.Type())
	m, k := x.val(i.X), x.val(i.Index)
	x.mapKeyHashable(i.Index, i.Pos())
	ok := e.define("ok", "Bool", fmt.Sprintf("(and (not (= %s 0)) (select (select %s %s) %s))", m, e.get(st, d), m, k))
	v := e.define(i.Name(), e.S.sortOf(mt.Elem()), fmt.Sprintf("(ite %s (select (select %s %s) %s) %s)", ok, e.get(st, vl), m, k, e.S.zero(mt.Elem())))
	e.assumeWF(v, mt.Elem(), st.alloc)
	if i.CommaOk {
		x.tuples[i] = []Term{v, ok}
	} else {
		x.vals[i] = v
	}
}

func (x *fx) next(i *ssa.Next) {
	e := x.e
	st := x.cur
	rg, _ := i.Iter.(*ssa.Range)
	rec := x.ranges[rg]
	if rec == nil || i.IsString {
		// string iteration: abstract
		tup := i.Type().(*types.Tuple)
		var ts []Term
		for k := 0; k < tup.Len(); k++ {
			ts = append(ts, e.declare("next", e.S.sortOf(tup.At(k).Type())))
		}
		x.tuples[i] = ts
		return
	}
	mt := rec.mapT.Underlying().(*types.Map)
	d, vl, _ := e.mapFams(rec.mapT)
	ok := e.declare("ok", "Bool")
	k := e.declare("k", e.S.sortOf(mt.Key()))
	v := e.declare("v", e.S.sortOf(mt.Elem()))
	seen := st.ghost[rec.ghost]
	dom, val := e.get(st, d), e.get(st, vl)
	e.assume(implies(x.curReach, fmt.Sprintf("(=> %s (and (not (= %s 0)) (select (select %s %s) %s) (not (select %s %s)) (= %s (select (select %s %s) %s))))", ok, rec.m, dom, rec.m, k, seen, k, v, val, rec.m, k)))
	ks := e.S.sortOf(mt.Key())
	// exit: every key present since the start (and still present) has been visited
	domNow := e.pin("domNow", "(Array "+ks+" Bool)", fmt.Sprintf("(select %s %s)", dom, rec.m))
	seenC := e.pin("seenC", "(Array "+ks+" Bool)", seen)
	e.assume(implies(x.curReach, fmt.Sprintf("(=> (not %s) (forall ((kk %s)) (! (=> (and (not (= %s 0)) (select %s kk) (select %s kk)) (select %s kk)) :pattern ((select %s kk)) :pattern ((select %s kk)) :pattern ((select %s kk)))))", ok, ks, rec.m, domNow, rec.domAt, seenC, seenC, domNow, rec.domAt)))
	e.assumeWF(v, mt.Elem(), st.alloc)
	e.assumeWF(k, mt.Key(), st.alloc)
	st.ghost[rec.ghost] = e.define("seen", "(Array "+ks+" Bool)", fmt.Sprintf("(ite %s (store %s %s true) %s)", ok, seen, k, seen))
	x.tuples[i] = []Term{ok, k, v}
	x.keyFns(i, st, ok, k, ks)
}

func (x *fx) slice(i *ssa.Slice) {
	e := x.e
	lo, hi := "0", ""
	if i.Low != nil {
		lo = x.val(i.Low)
	}
	if i.High != nil {
		hi = x.val(i.High)
	}
	desc := x.describe(i.X)
	switch xt := i.X.Type().Underlying().(type) {
	case *types.Slice:
		s := x.val(i.X)
		if hi == "" {
			hi = "(slen " + s + ")"
		}
		mx := "(scap " + s + ")"
		if i.Max != nil {
			mx = x.val(i.Max)
		}
		x.safety("slice-bounds", desc+"[:]", fmt.Sprintf("(and (<= 0 %s) (<= %s %s) (<= %s %s) (<= %s (scap %s)))", lo, lo, hi, hi, mx, mx, s), i.Pos())
		x.vals[i] = fmt.Sprintf("(mkSlice (sref %s) (+ (soff %s) %s) (- %s %s) (- %s %s))", s, s, lo, hi, lo, mx, lo)
	case *types.Basic: // string
		s := x.val(i.X)
		if hi == "" {
			hi = "(str.len " + s + ")"
		}
		x.safety("slice-bounds", desc+"[:]", fmt.Sprintf("(and (<= 0 %s) (<= %s %s) (<= %s (str.len %s)))", lo, lo, hi, hi, s), i.Pos())
		x.vals[i] = fmt.Sprintf("(str.substr %s %s (- %s %s))", s, lo, hi, lo)
	case *types.Pointer: // pointer to array
		at := xt.Elem().Underlying().(*types.Array)
		base := x.lvalOf(i.X)
		if hi == "" {
			hi = fmt.Sprint(at.Len())
		}
		x.safety("slice-bounds", desc+"[:]", fmt.Sprintf("(and (<= 0 %s) (<= %s %s) (<= %s %d))", lo, lo, hi, hi, at.Len()), i.Pos())
		x.vals[i] = fmt.Sprintf("(mkSlice %s %s (- %s %s) (- %d %s))", base.ref, lo, hi, lo, at.Len(), lo)
	default:
		e.note("unsupported slice operand in " + x.fn.Name())
		x.vals[i] = e.declare("slice", e.S.sortOf(i.Type()))
	}
}

func (x *fx) typeAssert(i *ssa.TypeAssert) {
	e := x.e
	v := x.val(i.X)
	var ok Term
	var res Term
	if isInterface(i.AssertedType) {
		it := i.AssertedType.Underlying().(*types.Interface)
		if it.NumMethods() == 0 {
			ok = fmt.Sprintf("(not ((_ is VNil) %s))", v)
		} else {
			ok = e.implementsPred(v, i.AssertedType)
		}
		res = v
	} else {
		ok = e.S.hasType(v, i.AssertedType)
		res = e.S.fromVal(v, i.AssertedType)
	}
	okc := e.define("is", "Bool", ok)
	// canonicalisation stability (C09): a number that reaches a float64 type
	// test must already be a float64, otherwise the in-memory value and its
	// JSON round trip take different branches
	if root := x.rootContract(); root != nil && len(root.Canon) > 0 && !strings.Contains(x.tag, "fudge") {
		if b, isB := i.AssertedType.Underlying().(*types.Basic); isB && b.Kind() == types.Float64 {
			var kinds []Term
			for _, k := range []types.BasicKind{types.Float32, types.Int64, types.Int32, types.Int} {
				kinds = append(kinds, e.S.hasType(v, types.Typ[k]))
			}
			name := "canon-stable:" + x.describe(i.X)
			if x.tag != "" {
				name += "@" + x.tag
			}
			e.oblig("canon-stable", name, root.Canon, x.curReach, not(or(kinds...)), x.pos(i.Pos()), "a number tested against float64 here has been coerced (fudge) before: otherwise persisting and reloading the value changes the branch taken")
		}
	}
	if i.CommaOk {
		r := e.define(i.Name(), e.S.sortOf(i.AssertedType), fmt.Sprintf("(ite %s %s %s)", okc, res, e.S.zero(i.AssertedType)))
		e.assumeWF(r, i.AssertedType, x.cur.alloc)
		x.tuples[i] = []Term{r, okc}
	} else {
		x.safety("type-assert", x.describe(i.X)+".("+typeStr(i.AssertedType)+")", okc, i.Pos())
		r := e.define(i.Name(), e.S.sortOf(i.AssertedType), res)
		e.assumeWF(r, i.AssertedType, x.cur.alloc)
		x.vals[i] = r
	}
}

// implementsPred: dynamic type of v implements interface type it.
func (e *enc) implementsPred(v Term, it types.Type) Term {
	name := q("impl:" + typeStr(it))
	if !e.S.boxDecl["impl:"+typeStr(it)] {
		e.S.boxDecl["impl:"+typeStr(it)] = true
		e.S.extraDecls = append(e.S.extraDecls, fmt.Sprintf("(declare-fun %s (Int) Bool)", name))
	}
	return fmt.Sprintf("(and (not ((_ is VNil) %s)) (%s (tid %s)))", v, name, v)
}

func (x *fx) convert(i *ssa.Convert) {
	e := x.e
	from, to := i.X.Type(), i.Type()
	v := x.val(i.X)
	switch {
	case isInteger(from) && isInteger(to):
		x.vals[i] = v
	case isInteger(from) && isFloat(to):
		x.vals[i] = "(to_real " + v + ")"
	case isFloat(from) && isFloat(to):
		x.vals[i] = v
	case isFloat(from) && isInteger(to):
		// truncation toward zero
		x.vals[i] = fmt.Sprintf("(ite (>= %s 0.0) (to_int %s) (- (to_int (- %s))))", v, v, v)
	case isString(from) && isString(to):
		x.vals[i] = v
	default:
		// string <-> []byte, []rune, unsafe.Pointer ...
		if _, ok := to.Underlying().(*types.Slice); ok {
			// fresh slice with unknown content
			r := x.newRef()
			ln := e.declare("cvlen", "Int")
			e.assume("(>= " + ln + " 0)")
			if el, ok2 := to.Underlying().(*types.Slice); ok2 {
				e.elemFam(el.Elem())
			}
			if isString(from) {
				e.assume(fmt.Sprintf("(= %s (str.len %s))", ln, v))
			}
			x.vals[i] = fmt.Sprintf("(mkSlice %s 0 %s %s)", r, ln, ln)
			return
		}
		t := e.declare("conv", e.S.sortOf(to))
		e.assumeWF(t, to, x.cur.alloc)
		x.vals[i] = t
		if !(isString(to)) {
			e.note("abstracted conversion " + typeStr(from) + " -> " + typeStr(to) + " in " + x.fn.Name())
		}
	}
}

func (x *fx) unop(i *ssa.UnOp) {
	e := x.e
	switch i.Op {
	case token.MUL:
		lv := x.lvalOf(i.X)
		if _, interior := x.lvs[i.X]; !interior {
			x.safety("nil-deref", x.describe(i.X), fmt.Sprintf("(not (= %s 0))", lv.ref), i.Pos())
		}
		t := e.define(i.Name(), e.S.sortOf(i.Type()), x.load(x.cur, lv))
		e.assumeWF(t, i.Type(), x.cur.alloc)
		for _, l := range x.locals {
			// a reference loaded from the heap is never a non-escaped local object
			switch i.Type().Underlying().(type) {
			case *types.Pointer, *types.Map:
				if !strings.Contains(lv.ref, l) {
					e.assume(fmt.Sprintf("(not (= %s %s))", t, l))
				}
			}
		}
		x.vals[i] = t
		if g, ok := i.X.(*ssa.Global); ok {
			for _, gi := range e.P.Contracts.GlobalInvs[shortPkg(g.Pkg.Pkg.Path())+"."+g.Name()] {
				env := &Env{e: e, vars: map[string]TV{}, st: x.cur, old: x.cur, allocOld: x.cur.alloc, pkg: g.Pkg.Pkg, fx: x, hyp: true}
				if tv, err := env.eval(gi.Clause.Expr); err == nil {
					e.assume(tv.T)
					e.trusted["globalinv "+gi.Pkg+"."+gi.Name+": "+gi.Clause.Text] = true
				} else {
					e.note("globalinv " + gi.Name + ": " + err.Error())
				}
			}
		}
	case token.NOT:
		x.vals[i] = not(x.val(i.X))
	case token.SUB:
		x.vals[i] = "(- " + x.val(i.X) + ")"
	case token.ARROW:
		e.note("channel receive in " + x.fn.Name())
		x.unknownEffect(&Effects{All: true, Why: "channel receive"})
		if i.CommaOk {
			tup := i.Type().(*types.Tuple)
			a := e.declare("recv", e.S.sortOf(tup.At(0).Type()))
			e.assumeWF(a, tup.At(0).Type(), x.cur.alloc)
			x.tuples[i] = []Term{a, e.declare("recvok", "Bool")}
		} else {
			a := e.declare("recv", e.S.sortOf(i.Type()))
			e.assumeWF(a, i.Type(), x.cur.alloc)
			x.vals[i] = a
		}
	default:
		e.note("unsupported unary operator " + i.Op.String() + " in " + x.fn.Name())
		x.vals[i] = e.declare("unop", e.S.sortOf(i.Type()))
	}
}

func (x *fx) binop(i *ssa.BinOp) {
	e := x.e
	a, b := x.val(i.X), x.val(i.Y)
	t := i.X.Type()
	var r Term
	switch i.Op {
	case token.EQL, token.NEQ:
		if isInterface(t) && !isInterface(i.Y.Type()) {
			b = e.S.toVal(b, i.Y.Type())
		} else if !isInterface(t) && isInterface(i.Y.Type()) {
			a = e.S.toVal(a, t)
		}
		if isInterface(t) && isInterface(i.Y.Type()) {
			// comparing two non-nil interface values of uncomparable dynamic type panics
			if c1, ok1 := i.X.(*ssa.Const); !(ok1 && c1.Value == nil) {
				if c2, ok2 := i.Y.(*ssa.Const); !(ok2 && c2.Value == nil) {
					x.safety("uncomparable", x.describe(i.X)+"=="+x.describe(i.Y),
						fmt.Sprintf("(not (and ((_ is VSlice) %s) ((_ is VSlice) %s)))", a, b), i.Pos())
				}
			}
		}
		if isInterface(t) && isInterface(i.Y.Type()) {
			// canonicalisation stability (C09): two values compared as interfaces must not
			// hold numbers of a non-float64 type (7 and 7.0 are equal after a JSON round
			// trip and unequal before it)
			if root := x.rootContract(); root != nil && len(root.Canon) > 0 && !strings.Contains(x.tag, "fudge") {
				_, n1 := i.X.(*ssa.Const)
				_, n2 := i.Y.(*ssa.Const)
				if !n1 && !n2 {
					var kinds []Term
					for _, v := range []Term{a, b} {
						for _, k := range []types.BasicKind{types.Float32, types.Int64, types.Int32, types.Int} {
							kinds = append(kinds, e.S.hasType(v, types.Typ[k]))
						}
					}
					name := "canon-stable:" + x.describe(i.X) + "==" + x.describe(i.Y)
					if x.tag != "" {
						name += "@" + x.tag
					}
					e.oblig("canon-stable", name, root.Canon, x.curReach, not(or(kinds...)), x.pos(i.Pos()), "values compared as interfaces here hold no number of a non-float64 type (coerced before): otherwise persisting and reloading the value changes the outcome of the comparison")
				}
			}
		}
		if _, ok := t.Underlying().(*types.Slice); ok {
			// only comparison with nil is legal
			r = fmt.Sprintf("(= (sref %s) 0)", a)
			if c, okc := i.X.(*ssa.Const); okc && c.Value == nil {
				r = fmt.Sprintf("(= (sref %s) 0)", b)
			}
		} else {
			r = fmt.Sprintf("(= %s %s)", a, b)
		}
		if i.Op == token.NEQ {
			r = not(r)
		}
	case token.LSS, token.LEQ, token.GTR, token.GEQ:
		op := map[token.Token]string{token.LSS: "<", token.LEQ: "<=", token.GTR: ">", token.GEQ: ">="}[i.Op]
		if isString(t) {
			switch i.Op {
			case token.LSS:
				r = fmt.Sprintf("(str.< %s %s)", a, b)
			case token.LEQ:
				r = fmt.Sprintf("(str.<= %s %s)", a, b)
			case token.GTR:
				r = fmt.Sprintf("(str.< %s %s)", b, a)
			case token.GEQ:
				r = fmt.Sprintf("(str.<= %s %s)", b, a)
			}
		} else {
			r = fmt.Sprintf("(%s %s %s)", op, a, b)
		}
	case token.ADD:
		if isString(t) {
			r = fmt.Sprintf("(str.++ %s %s)", a, b)
		} else {
			r = fmt.Sprintf("(+ %s %s)", a, b)
		}
	case token.SUB:
		r = fmt.Sprintf("(- %s %s)", a, b)
	case token.MUL:
		r = fmt.Sprintf("(* %s %s)", a, b)
	case token.QUO:
		if isFloat(t) {
			r = fmt.Sprintf("(/ %s %s)", a, b)
		} else {
			x.safety("div-zero", x.describe(i.Y), fmt.Sprintf("(not (= %s 0))", b), i.Pos())
			// Go truncates toward zero
			r = fmt.Sprintf("(ite (>= %s 0) (div %s %s) (- (div (- %s) %s)))", a, a, b, a, b)
		}
	case token.REM:
		x.safety("div-zero", x.describe(i.Y), fmt.Sprintf("(not (= %s 0))", b), i.Pos())
		r = fmt.Sprintf("(ite (>= %s 0) (mod %s %s) (- (mod (- %s) %s)))", a, a, b, a, b)
	case token.AND:
		if isBool(t) {
			r = and(a, b)
		}
	case token.OR:
		if isBool(t) {
			r = or(a, b)
		}
	}
	if r == "" {
		e.note("abstracted binary operator " + i.Op.String() + " in " + x.fn.Name())
		r = e.declare("binop", e.S.sortOf(i.Type()))
		x.vals[i] = r
		return
	}
	x.vals[i] = e.define(i.Name(), e.S.sortOf(i.Type()), r)
}

// keyFns defines, for the key of this iteration, the point of every `keyfn` of the loop whose header holds this Next.
func (x *fx) keyFns(i *ssa.Next, st *State, ok, k Term, keySort string) {
	e := x.e
	if x.fc == nil {
		return
	}
	for _, li := range x.loopOrd {
		if li.header != i.Block() {
			continue
		}
		lc := x.fc.Loops[li.ordinal]
		if lc == nil || len(lc.KeyFns) == 0 {
			continue
		}
		for _, other := range x.loopOrd {
			if other != li && other.inLoop[li.header] {
				e.bindingErrorText(x.fn, "keyfn", lc.KeyFns[0].Text, fmt.Errorf("keyfn on a loop nested in another loop (its points could clash between executions)"))
				return
			}
		}
		env := x.envAt(st, li.header, li.phiConst, false)
		env.loopSt = li.entryState
		for _, kf := range lc.KeyFns {
			name := q("gf:" + kf.Name)
			decl := fmt.Sprintf("(declare-fun %s (%s) Int)", name, keySort)
			have := false
			for _, d := range e.S.extraDecls {
				if d == decl {
					have = true
				}
			}
			if !have {
				e.S.extraDecls = append(e.S.extraDecls, decl)
			}
			vv, err := env.eval(kf.Val)
			if err != nil {
				e.bindingErrorText(x.fn, "keyfn:"+kf.Name, kf.Text, err)
				continue
			}
			e.assume(implies(x.curReach, fmt.Sprintf("(=> %s (= (%s %s) %s))", ok, name, k, vv.T)))
		}
	}
}
