package vc

import (
	"fmt"
	"go/types"
	"reflect"
	"sort"
	"strings"
)

// JSONForm is the contract `jsonform [props] Type: key=Field, key=Field`: the
// type is written by encoding/json as an object with exactly these keys, each
// taken from the named field and ALWAYS written, whatever the field's value,
// and read back from the same key; no user-defined (un)marshaller intervenes.
// A trailing `...` admits further keys.
// It is the side condition under which "encoding/json round trip is the
// identity on canonical values" (an assumption of C09) extends from the
// bindings to the record that carries them.
type JSONForm struct {
	Pkg, Type  string
	Keys       [][2]string // key, field
	Open       bool        // a trailing "...": other keys may be written too
	Props      []string
	File       string
	Line       int
	StructTags map[string]string
}

func parseJSONForm(pkg, rest, path string, lineNo int) (*JSONForm, error) {
	props, _, r := parseTags(rest)
	i := strings.Index(r, ":")
	if i < 0 {
		return nil, fmt.Errorf("%s:%d: jsonform [props] Type: key=Field, ...", path, lineNo)
	}
	jf := &JSONForm{Pkg: pkg, Type: strings.TrimSpace(r[:i]), Props: props, File: path, Line: lineNo}
	for _, kv := range strings.Split(r[i+1:], ",") {
		if strings.TrimSpace(kv) == "..." {
			jf.Open = true
			continue
		}
		p := strings.Split(strings.TrimSpace(kv), "=")
		if len(p) != 2 {
			return nil, fmt.Errorf("%s:%d: jsonform [props] Type: key=Field, ...", path, lineNo)
		}
		jf.Keys = append(jf.Keys, [2]string{strings.TrimSpace(p[0]), strings.TrimSpace(p[1])})
	}
	return jf, nil
}

// jsonTag: encoding/json's reading of a field's tag.
func jsonTag(f *types.Var, tag string) (key string, skipped, omitempty, asString bool) {
	key = f.Name()
	if !f.Exported() {
		return key, true, false, false
	}
	t, ok := reflect.StructTag(tag).Lookup("json")
	if !ok {
		return key, false, false, false
	}
	if t == "-" {
		return key, true, false, false
	}
	parts := strings.Split(t, ",")
	if parts[0] != "" {
		key = parts[0]
	}
	for _, o := range parts[1:] {
		switch o {
		case "omitempty", "omitzero":
			omitempty = true
		case "string":
			asString = true
		}
	}
	return key, false, omitempty, asString
}

// JSONFormUnit generates the obligations of one jsonform contract. The facts
// (field names, tags, method sets) are read from go/types; the "always
// written" obligation is a small VC over the size of the field's value, so
// that a refutation comes with the value that is lost (size 0).
func JSONFormUnit(P *Program, jf *JSONForm) *Unit {
	e := &enc{P: P, S: newSorts(), famSort: map[string]string{}, notes: map[string]bool{}, names: map[string]int{},
		unitName: jf.Pkg + "." + jf.Type}
	pos := fmt.Sprintf("%s:%d", strings.TrimPrefix(jf.File, P.RepoDir+"/"), jf.Line)
	finish := func() *Unit {
		u := &Unit{Fn: e.unitName, Lines: e.lines, Obligs: e.obligs, e: e}
		for _, o := range u.Obligs {
			o.unit = u
		}
		return u
	}
	var named *types.Named
	for path, p := range P.TPkgs {
		if shortPkg(path) == jf.Pkg {
			if obj := p.Types.Scope().Lookup(jf.Type); obj != nil {
				named, _ = obj.Type().(*types.Named)
			}
		}
	}
	var st *types.Struct
	if named != nil {
		st, _ = named.Underlying().(*types.Struct)
	}
	if st == nil {
		e.oblig1("binding", "binding:jsonform", jf.Props, "true", "false", pos, "no struct type "+jf.Type+" in package "+jf.Pkg+": the contract no longer matches the code")
		return finish()
	}
	// what encoding/json will write
	type fieldForm struct {
		key              string
		omitempty, asStr bool
		field            *types.Var
	}
	written := map[string]*fieldForm{} // by field name
	var keys []string
	for i := 0; i < st.NumFields(); i++ {
		f := st.Field(i)
		key, skipped, omit, asStr := jsonTag(f, st.Tag(i))
		if skipped {
			continue
		}
		if f.Embedded() {
			e.oblig1("jsonform", "jsonform:embedded:"+f.Name(), jf.Props, "true", "false", pos, "embedded field "+f.Name()+": its keys are promoted into the object; not covered by a jsonform contract")
			continue
		}
		written[f.Name()] = &fieldForm{key, omit, asStr, f}
		keys = append(keys, key)
	}
	claimed := map[string]bool{}
	for _, kf := range jf.Keys {
		key, field := kf[0], kf[1]
		claimed[field] = true
		ff := written[field]
		text := fmt.Sprintf("%s.%s is written under the key %q", jf.Type, field, key)
		if ff == nil {
			e.oblig1("jsonform", "jsonform:"+key+":field", jf.Props, "true", "false", pos, text+" (no such field is written)")
			continue
		}
		goal := "true"
		if ff.key != key || ff.asStr {
			goal = "false"
		}
		e.oblig1("jsonform", "jsonform:"+key+":field", jf.Props, "true", goal, pos, text+", as itself")
		// always written: encoding/json drops an omitempty field whose value is empty (size 0: nil, "", 0, false, len 0)
		n := e.declare("size:"+field, "Int")
		e.assume(fmt.Sprintf("(>= %s 0)", n))
		om := "false"
		if ff.omitempty {
			om = "true"
		}
		o := e.define("omitempty:"+field, "Bool", om)
		e.oblig1("jsonform", "jsonform:"+key+":always-written", jf.Props, "true", fmt.Sprintf("(not (and %s (= %s 0)))", o, n), pos,
			fmt.Sprintf("%s.%s is written whatever its value (an empty value, size 0, is not dropped)", jf.Type, field))
		// read back from the same key: no other written field answers to the same key (encoding/json matches keys case-insensitively)
		clash := "false"
		for name, other := range written {
			if name != field && strings.EqualFold(other.key, ff.key) {
				clash = "true"
			}
		}
		e.oblig1("jsonform", "jsonform:"+key+":own-key", jf.Props, "true", "(not "+clash+")", pos, fmt.Sprintf("no other field of %s answers to the key %q", jf.Type, key))
	}
	var extra []string
	for name := range written {
		if !claimed[name] {
			extra = append(extra, name)
		}
	}
	sort.Strings(extra)
	goal := "true"
	if len(extra) > 0 && !jf.Open {
		goal = "false"
	}
	e.oblig1("jsonform", "jsonform:exact", jf.Props, "true", goal, pos, fmt.Sprintf("%s is written with exactly the listed keys (others: %v)", jf.Type, extra))
	// no user-defined marshaller on T, *T or a field's named type
	bad := ""
	check := func(t types.Type, what string) {
		for _, m := range []string{"MarshalJSON", "UnmarshalJSON", "MarshalText", "UnmarshalText"} {
			for _, tt := range []types.Type{t, types.NewPointer(t)} {
				if obj, _, _ := types.LookupFieldOrMethod(tt, true, nil, m); obj != nil {
					if _, isFn := obj.(*types.Func); isFn {
						bad = what + " has " + m
					}
				}
			}
		}
	}
	check(named, jf.Type)
	for _, kf := range jf.Keys {
		if ff := written[kf[1]]; ff != nil {
			if _, isNamed := ff.field.Type().(*types.Named); isNamed {
				check(ff.field.Type(), jf.Type+"."+kf[1])
			}
		}
	}
	goal = "true"
	if bad != "" {
		goal = "false"
	}
	e.oblig1("jsonform", "jsonform:nomethods", jf.Props, "true", goal, pos, "no user-defined JSON/text (un)marshaller intervenes "+bad)
	return finish()
}
