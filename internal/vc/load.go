// Package vc is the verification-condition generator of govc: it loads the
// real Go code of /repo (go/packages + go/ssa), reads the contracts kept in
// comment-only files behind the `verif` build tag, symbolically executes the
// SSA of each function under contract and emits one SMT-LIB query per proof
// obligation.
package vc

import (
	"fmt"
	"go/token"
	"go/types"
	"os"
	"path/filepath"
	"regexp"
	"sort"
	"strings"

	"golang.org/x/tools/go/packages"
	"golang.org/x/tools/go/ssa"
	"golang.org/x/tools/go/ssa/ssautil"
)

const ModulePath = "github.com/Comcast/sheens"

// ExternSpec is the file with the assumed contracts of library functions.
var ExternSpec = "/verif/contracts/extern.spec"

// Program is the loaded code plus its contracts.
type Program struct {
	RepoDir   string
	Fset      *token.FileSet
	Prog      *ssa.Program
	Pkgs      map[string]*ssa.Package // by import path
	TPkgs     map[string]*packages.Package
	Contracts *ContractSet
	Funcs     map[string]*ssa.Function // key: shortpkg.RelString, e.g. core.(*FuncAction).Exec
	LoadSecs  float64

	effMemo map[*ssa.Function]*Effects
}

// Load loads the given package patterns (relative to repoDir) with the verif
// tag and builds SSA with debug info.
func Load(repoDir string, patterns []string) (*Program, error) {
	cfg := &packages.Config{
		Mode:       packages.LoadAllSyntax,
		Dir:        repoDir,
		BuildFlags: []string{"-tags=verif"},
		Env:        append(os.Environ(), "GOFLAGS=-mod=mod", "GOPROXY=off", "GOSUMDB=off", "GOTOOLCHAIN=local"),
	}
	pkgs, err := packages.Load(cfg, patterns...)
	if err != nil {
		return nil, err
	}
	var errs []string
	packages.Visit(pkgs, nil, func(p *packages.Package) {
		for _, e := range p.Errors {
			errs = append(errs, e.Error())
		}
	})
	if len(errs) > 0 {
		return nil, fmt.Errorf("load errors:\n%s", strings.Join(errs, "\n"))
	}
	prog, _ := ssautil.AllPackages(pkgs, ssa.GlobalDebug|ssa.InstantiateGenerics)
	prog.Build()
	P := &Program{RepoDir: repoDir, Prog: prog, Pkgs: map[string]*ssa.Package{}, TPkgs: map[string]*packages.Package{},
		Funcs: map[string]*ssa.Function{}, effMemo: map[*ssa.Function]*Effects{}}
	if len(pkgs) > 0 {
		P.Fset = pkgs[0].Fset
	}
	packages.Visit(pkgs, nil, func(p *packages.Package) {
		P.TPkgs[p.PkgPath] = p
	})
	for _, sp := range prog.AllPackages() {
		P.Pkgs[sp.Pkg.Path()] = sp
	}
	// index functions of module packages (incl. methods and anonymous functions)
	for fn := range ssautil.AllFunctions(prog) {
		if fn.Pkg == nil || !strings.HasPrefix(fn.Pkg.Pkg.Path(), ModulePath) {
			continue
		}
		P.Funcs[FuncKey(fn)] = fn
	}
	cs := NewContractSet()
	if ExternSpec != "" {
		if err := cs.ParseFile(ExternSpec, ""); err != nil {
			return nil, err
		}
	}
	var modPkgs []*packages.Package
	packages.Visit(pkgs, nil, func(p *packages.Package) { modPkgs = append(modPkgs, p) })
	sort.Slice(modPkgs, func(i, j int) bool { return modPkgs[i].PkgPath < modPkgs[j].PkgPath })
	for _, p := range modPkgs {
		if !strings.HasPrefix(p.PkgPath, ModulePath) {
			continue
		}
		dir := filepath.Join(repoDir, strings.TrimPrefix(strings.TrimPrefix(p.PkgPath, ModulePath), "/"))
		f := filepath.Join(dir, "verif_contracts.go")
		if _, err := os.Stat(f); err == nil {
			if err := cs.ParseFile(f, shortPkg(p.PkgPath)); err != nil {
				return nil, err
			}
		}
	}
	P.Contracts = cs
	return P, nil
}

// shortPkg turns github.com/Comcast/sheens/interpreters/ecmascript into
// interpreters/ecmascript and github.com/Comcast/sheens/core into core.
func shortPkg(path string) string {
	s := strings.TrimPrefix(path, ModulePath)
	s = strings.TrimPrefix(s, "/")
	if s == "" {
		return "sheens"
	}
	return s
}

// FuncKey is the stable name of a function: <shortpkg>.<RelString>.
func FuncKey(fn *ssa.Function) string {
	if fn.Pkg == nil {
		// synthetic wrappers etc.
		return fn.String()
	}
	return shortPkg(fn.Pkg.Pkg.Path()) + "." + fn.RelString(fn.Pkg.Pkg)
}

// qual is the qualifier used for readable type strings.
func qual(p *types.Package) string {
	return shortPkg(p.Path())
}

var anyWord = regexp.MustCompile(`\bany\b`)

// typeStr names a type; `any` is spelled interface{} so that both spellings of
// the same type give the same heap families and type ids.
func typeStr(t types.Type) string {
	s := types.TypeString(t, qual)
	if strings.Contains(s, "any") {
		s = anyWord.ReplaceAllString(s, "interface{}")
	}
	return s
}

func sortedKeys[V any](m map[string]V) []string {
	ks := make([]string, 0, len(m))
	for k := range m {
		ks = append(ks, k)
	}
	sort.Strings(ks)
	return ks
}
