package vc

import (
	"fmt"
	"go/token"
	"go/types"
	"strings"

	"golang.org/x/tools/go/ssa"
)

// Lock discipline (`guardedby [props] Type.field by lockfield`).
//
// The lock state is ghost state of the activation: for every mutex that is a
// field of a struct reachable by a field path from a pointer value, two
// counters (write holds, read holds), advanced by the calls of
// sync.(RW)Mutex.Lock/Unlock/RLock/RUnlock made by this function and its
// inlined callees. At every use of a map loaded from a guarded field (lookup,
// range, len: read; update, delete: write) an obligation says that the lock
// in the same struct is held. Deferred unlocks run at the return and do not
// matter for the accesses before it. Contracted callees are assumed to leave
// the caller's locks as they found them.

type GuardedBy struct {
	Props []string
	Pkg   string // short package path of the contract file
	Type  string
	Field string
	Lock  string
	File  string
	Line  int
}

type guardedVal struct {
	key  string
	decl *GuardedBy
}

func lockKeyOf(lv *lval) (parent string, last pathStep, ok bool) {
	if lv == nil || len(lv.path) == 0 {
		return "", pathStep{}, false
	}
	var sb strings.Builder
	sb.WriteString(lv.fam + "|" + string(lv.ref) + "|" + string(lv.idx))
	for _, p := range lv.path[:len(lv.path)-1] {
		fmt.Fprintf(&sb, "/%d", p.field)
	}
	return sb.String(), lv.path[len(lv.path)-1], true
}

func fieldNameOf(p pathStep) (pkg, structName, field string) {
	st, ok := p.structT.Underlying().(*types.Struct)
	if !ok {
		return "", "", ""
	}
	name := ""
	if n, ok := p.structT.(*types.Named); ok {
		name = n.Obj().Name()
		if n.Obj().Pkg() != nil {
			pkg = shortPkg(n.Obj().Pkg().Path())
		}
	}
	return pkg, name, st.Field(p.field).Name()
}

func isSyncLockMethod(fn *ssa.Function) (op string, ok bool) {
	if fn == nil || fn.Signature.Recv() == nil {
		return "", false
	}
	rs := fn.Signature.Recv().Type().String()
	if rs != "*sync.RWMutex" && rs != "*sync.Mutex" {
		return "", false
	}
	switch fn.Name() {
	case "Lock", "Unlock", "RLock", "RUnlock":
		return fn.Name(), true
	}
	return "", false
}

func (x *fx) lkGet(kind, key string) Term {
	gk := "lk:" + kind + ":" + key
	if t, ok := x.cur.ghost[gk]; ok {
		return t
	}
	x.e.ghostEntry[gk] = "0" // no lock is held at the entry of a function under contract
	x.e.famSort["ghost:"+gk] = "Int"
	return "0"
}

func (x *fx) lkSet(kind, key string, t Term) {
	gk := "lk:" + kind + ":" + key
	x.e.ghostEntry[gk] = "0"
	x.e.famSort["ghost:"+gk] = "Int"
	x.cur.ghost[gk] = t
}

// lockCall advances the lock counters for a call of a sync lock method.
func (x *fx) lockCall(fn *ssa.Function, ci ssa.CallInstruction) {
	op, ok := isSyncLockMethod(fn)
	if !ok || len(x.e.P.Contracts.GuardedBys) == 0 {
		return
	}
	if _, isDefer := ci.(*ssa.Defer); isDefer {
		return
	}
	args := ci.Common().Args
	if len(args) == 0 {
		return
	}
	lv := x.lvs[args[0]]
	key, _, ok := lockKeyOf(lv)
	if !ok {
		// a lock that is not a field of a struct we can name: every counter is unknown afterwards
		x.e.note("lock call on a mutex that is not a struct field in " + x.fn.Name())
		for _, gk := range sortedKeys(x.cur.ghost) {
			if strings.HasPrefix(gk, "lk:") {
				x.cur.ghost[gk] = x.e.declare("ghost:"+gk, "Int")
			}
		}
		return
	}
	kind, d := "w", 1
	switch op {
	case "Unlock":
		d = -1
	case "RLock":
		kind = "r"
	case "RUnlock":
		kind, d = "r", -1
	}
	cur := x.lkGet(kind, key)
	x.lkSet(kind, key, x.e.define("lk", "Int", fmt.Sprintf("(+ %s %d)", cur, d)))
}

// noteGuardedLoad remembers that the value loaded by i is the content of a guarded field.
func (x *fx) noteGuardedLoad(i *ssa.UnOp) {
	if i.Op != token.MUL || len(x.e.P.Contracts.GuardedBys) == 0 {
		return
	}
	lv := x.lvs[i.X]
	key, last, ok := lockKeyOf(lv)
	if !ok {
		return
	}
	pk, sn, fn := fieldNameOf(last)
	for _, g := range x.e.P.Contracts.GuardedBys {
		// the declaration speaks about the type of the package whose contract file it is in
		if g.Pkg == pk && g.Type == sn && g.Field == fn {
			if x.guarded == nil {
				x.guarded = map[ssa.Value]*guardedVal{}
			}
			x.guarded[i] = &guardedVal{key: key, decl: g}
			x.guardedAccess(i, false, i.Pos(), "load of "+sn+"."+fn)
		}
	}
}

// guardedAccess emits the lock-held obligation for a use of a guarded value.
func (x *fx) guardedAccess(v ssa.Value, write bool, p token.Pos, what string) {
	gv := x.guarded[v]
	if gv == nil {
		return
	}
	w := x.lkGet("w", gv.key)
	goal := fmt.Sprintf("(> %s 0)", w)
	mode := "write"
	if !write {
		mode = "read"
		goal = fmt.Sprintf("(or (> %s 0) (> %s 0))", w, x.lkGet("r", gv.key))
	}
	name := fmt.Sprintf("lock-held:%s:%s", mode, what)
	if x.tag != "" {
		name += "@" + x.tag
	}
	x.e.oblig("lock-held", name, gv.decl.Props, x.curReach, goal, x.pos(p),
		fmt.Sprintf("%s access to %s.%s while %s is held (guardedby, %s:%d)", mode, gv.decl.Type, gv.decl.Field, gv.decl.Lock, shortFile(gv.decl.File), gv.decl.Line))
}

// loopLocks: does the loop body call a sync lock method directly?
func loopLocks(blocks []*ssa.BasicBlock) bool {
	for _, b := range blocks {
		for _, in := range b.Instrs {
			if ci, ok := in.(ssa.CallInstruction); ok {
				if _, ok := isSyncLockMethod(ci.Common().StaticCallee()); ok {
					return true
				}
			}
		}
	}
	return false
}
