package vc

import (
	"fmt"
	"go/ast"
	"go/token"
	"go/types"
	"strings"

	"golang.org/x/tools/go/ssa"
)

// envAt builds an evaluation environment for contract clauses of the
// function, looking at state st, with names resolved as of block `at`.
func (x *fx) envAt(st *State, at *ssa.BasicBlock, override map[*ssa.Phi]Term, atEnd bool) *Env {
	e := x.e
	env := &Env{e: e, vars: map[string]TV{}, st: st, old: x.entry, allocOld: x.entry.alloc, fx: x}
	if x.fc != nil {
		env.pkg = e.pkgOf(x.fc)
	} else if x.fn.Pkg != nil {
		env.pkg = x.fn.Pkg.Pkg
	}
	env.shadowable = map[string]bool{}
	for k, v := range x.params {
		env.vars[k] = v
		env.shadowable[k] = true
	}
	env.preferResolve = at != nil && !atEnd
	env.resolve = func(name string) (TV, bool) {
		return x.resolveName(name, at, override, st, atEnd)
	}
	env.phiVal = func(p interface{}) (Term, bool) {
		ph := p.(*ssa.Phi)
		if t, ok := override[ph]; ok {
			return t, true
		}
		t, ok := x.vals[ph]
		return t, ok
	}
	env.seen = func(n int) (TV, bool) {
		if n < 0 || n >= len(x.loopOrd) {
			return TV{}, false
		}
		for _, in := range x.loopOrd[n].header.Instrs {
			if nx, ok := in.(*ssa.Next); ok {
				if rg, ok := nx.Iter.(*ssa.Range); ok {
					mt, isMap := rg.X.Type().Underlying().(*types.Map)
					if !isMap {
						continue
					}
					kt := mt.Key()
					g := "seen:" + rg.Name()
					if t, ok := st.ghost[g]; ok {
						return TV{t, &setTy{kt}}, true
					}
					// the range has not started on this path (a nested loop named by an outer invariant): unconstrained
					t, have := x.e.ghostEntry[g]
					if !have {
						t = x.e.declare("seen0", "(Array "+x.e.S.sortOf(kt)+" Bool)")
						x.e.ghostEntry[g] = t
					}
					return TV{t, &setTy{kt}}, true
				}
			}
		}
		return TV{}, false
	}
	return env
}

func (x *fx) resolveName(name string, at *ssa.BasicBlock, override map[*ssa.Phi]Term, st *State, atEnd bool) (TV, bool) {
	if at == nil {
		return TV{}, false
	}
	if nn, renamed := aliasesOf(x.fn).fwd[name]; renamed {
		// the local was renamed since the binding cache was written (bindcache.go)
		x.e.note(fmt.Sprintf("local %s of %s is read as %s (renamed; bound by its recorded fingerprint)", name, x.fn.Name(), nn))
		name = nn
	}
	// header phis by comment
	for _, in := range at.Instrs {
		ph, ok := in.(*ssa.Phi)
		if !ok {
			break
		}
		if ph.Comment == name {
			if t, ok := override[ph]; ok {
				return TV{t, ph.Type()}, true
			}
			if t, ok := x.vals[ph]; ok {
				return TV{t, ph.Type()}, true
			}
		}
	}
	// an address-taken local (captured by a closure, or &x): its current value lives in its cell
	for _, blk := range x.fn.Blocks {
		if blk != at && !blk.Dominates(at) {
			continue
		}
		for _, in := range blk.Instrs {
			if al, ok := in.(*ssa.Alloc); ok && al.Comment == name {
				if _, done := x.vals[al]; done {
					lv := x.lvalOf(al)
					return TV{x.load(st, lv), lv.t}, true
				}
			}
		}
	}
	var best *ssa.DebugRef
	for _, d := range x.dbgRefs {
		id, ok := d.Expr.(*ast.Ident)
		if !ok || id.Name != name {
			continue
		}
		if v, isVar := d.Object().(*types.Var); isVar && v.IsField() {
			continue // the selector of a field access, not a variable
		}
		db := d.Block()
		okBlock := false
		if db == at {
			if atEnd {
				okBlock = true
			} else if ph, isPhi := d.X.(*ssa.Phi); isPhi && ph.Block() == at {
				okBlock = true
			}
		} else if db.Dominates(at) {
			okBlock = true
		}
		if !okBlock {
			continue
		}
		// the defining value must itself be available
		if vi, ok := d.X.(ssa.Instruction); ok {
			vb := vi.Block()
			if vb != at && !vb.Dominates(at) {
				continue
			}
			if vb == at && !atEnd {
				if _, isPhi := d.X.(*ssa.Phi); !isPhi {
					continue
				}
			}
		}
		if best == nil {
			best = d
			continue
		}
		bb := best.Block()
		if bb == db {
			best = d // later in the same block
		} else if bb.Dominates(db) {
			best = d
		}
	}
	// phis named after the variable (a variable assigned in a loop has a phi
	// at the header even where no DebugRef dominates the point of interest)
	var bestPhi *ssa.Phi
	for _, blk := range x.fn.Blocks {
		if blk == at || !blk.Dominates(at) {
			continue
		}
		for _, in := range blk.Instrs {
			ph, ok := in.(*ssa.Phi)
			if !ok {
				break
			}
			if ph.Comment != name {
				continue
			}
			if bestPhi == nil || bestPhi.Block().Dominates(blk) {
				bestPhi = ph
			}
		}
	}
	if bestPhi != nil {
		usePhi := best == nil
		if best != nil {
			bb := best.Block()
			if vi, ok := best.X.(ssa.Instruction); ok {
				_ = vi
			}
			// prefer the phi if it is defined deeper than the DebugRef'd value's definition
			var defBlk *ssa.BasicBlock
			if vi, ok := best.X.(ssa.Instruction); ok {
				defBlk = vi.Block()
			}
			if defBlk == nil || (defBlk != bestPhi.Block() && defBlk.Dominates(bestPhi.Block())) {
				usePhi = true
			}
			_ = bb
		}
		if usePhi {
			if t, ok := override[bestPhi]; ok {
				return TV{t, bestPhi.Type()}, true
			}
			return TV{x.val(bestPhi), bestPhi.Type()}, true
		}
	}
	if best == nil {
		return TV{}, false
	}
	if ph, ok := best.X.(*ssa.Phi); ok {
		if t, ok := override[ph]; ok {
			return TV{t, ph.Type()}, true
		}
	}
	if best.IsAddr {
		lv := x.lvalOf(best.X)
		return TV{x.load(st, lv), lv.t}, true
	}
	if _, isLv := x.lvs[best.X]; isLv {
		return TV{}, false
	}
	return TV{x.val(best.X), best.X.Type()}, true
}

type invItem struct {
	name  string
	props []string
	text  string
	eval  func(env *Env) (Term, error)
}

// loopInvariants collects the user invariants and the automatic frame
// invariants of a loop.
func (x *fx) loopInvariants(li *loopInfo, eff *Effects) []invItem {
	var out []invItem
	fc := x.fc
	e := x.e
	if fc != nil {
		if lc := fc.Loops[li.ordinal]; lc != nil {
			for k, c := range lc.Invariants {
				if c.Profile != "" && c.Profile != e.profile {
					continue
				}
				c := c
				lbl := c.Label
				if lbl == "" {
					lbl = fmt.Sprint(k)
				}
				out = append(out, invItem{name: fmt.Sprintf("%d:%s", li.ordinal, lbl), props: c.Props, text: c.Text, eval: func(env *Env) (Term, error) {
					tv, err := env.eval(c.Expr)
					return tv.T, err
				}})
			}
		}
	}
	// automatic bounds of induction variables: i = phi(c, i+k) with k > 0 gives i >= c
	for _, in := range li.header.Instrs {
		ph, ok := in.(*ssa.Phi)
		if !ok {
			break
		}
		if !isInteger(ph.Type()) {
			continue
		}
		var c0 *ssa.Const
		dir := 0
		good := true
		for i, ed := range ph.Edges {
			pred := li.header.Preds[i]
			if x.isBackEdge(pred, li.header) {
				bo, ok := ed.(*ssa.BinOp)
				if !ok || bo.X != ssa.Value(ph) {
					good = false
					break
				}
				k, ok := bo.Y.(*ssa.Const)
				if !ok || k.Value == nil {
					good = false
					break
				}
				kv := k.Int64()
				d := 0
				switch {
				case bo.Op == token.ADD && kv > 0, bo.Op == token.SUB && kv < 0:
					d = 1
				case bo.Op == token.SUB && kv > 0, bo.Op == token.ADD && kv < 0:
					d = -1
				}
				if d == 0 || (dir != 0 && dir != d) {
					good = false
					break
				}
				dir = d
			} else {
				c, ok := ed.(*ssa.Const)
				if !ok || c.Value == nil || (c0 != nil && c0.Int64() != c.Int64()) {
					good = false
					break
				}
				c0 = c
			}
		}
		if !good || c0 == nil || dir == 0 {
			continue
		}
		phv := ph
		op := ">="
		if dir < 0 {
			op = "<="
		}
		bound := smtInt(c0.Int64())
		out = append(out, invItem{name: fmt.Sprintf("%d:auto-bound:%s", li.ordinal, phv.Name()), props: nil, text: fmt.Sprintf("induction variable %s %s %d", phv.Comment, op, c0.Int64()), eval: func(env *Env) (Term, error) {
			t, ok := env.phiVal(phv)
			if !ok {
				return "", fmt.Errorf("phi value unavailable")
			}
			return fmt.Sprintf("(%s %s %s)", op, t, bound), nil
		}})
	}
	// upper bound of a range-style index: i = phi(-1, i+1); t = i+1; if t < L (L fixed before the loop) gives i < L or i < 0
	for _, in := range li.header.Instrs {
		ph, ok := in.(*ssa.Phi)
		if !ok {
			break
		}
		if !isInteger(ph.Type()) {
			continue
		}
		var inc *ssa.BinOp
		for _, in2 := range li.header.Instrs {
			if bo, ok := in2.(*ssa.BinOp); ok && bo.Op == token.ADD && bo.X == ssa.Value(ph) {
				if k, ok := bo.Y.(*ssa.Const); ok && k.Value != nil && k.Int64() == 1 {
					inc = bo
				}
			}
		}
		if inc == nil {
			continue
		}
		// the phi must be exactly phi(-1 from outside, inc from the back edges)
		shape := true
		for i, ed := range ph.Edges {
			if x.isBackEdge(li.header.Preds[i], li.header) {
				if ed != ssa.Value(inc) {
					shape = false
				}
			} else if c, ok := ed.(*ssa.Const); !ok || c.Value == nil || c.Int64() != -1 {
				shape = false
			}
		}
		iff, ok := li.header.Instrs[len(li.header.Instrs)-1].(*ssa.If)
		if !shape || !ok {
			continue
		}
		cmp, ok := iff.Cond.(*ssa.BinOp)
		if !ok || cmp.Op != token.LSS || cmp.X != ssa.Value(inc) {
			continue
		}
		lim := cmp.Y
		if li2, ok := lim.(ssa.Instruction); ok {
			inLoop := false
			for _, lb := range li.blocks {
				if li2.Block() == lb {
					inLoop = true
				}
			}
			if inLoop {
				continue
			}
		}
		phv := ph
		out = append(out, invItem{name: fmt.Sprintf("%d:auto-upper:%s", li.ordinal, phv.Name()), props: nil, text: fmt.Sprintf("range index %s stays below the length fixed before the loop", phv.Comment), eval: func(env *Env) (Term, error) {
			t, ok := env.phiVal(phv)
			if !ok {
				return "", fmt.Errorf("phi value unavailable")
			}
			var lt Term
			if c, ok := lim.(*ssa.Const); ok && c.Value != nil {
				lt = smtInt(c.Int64())
			} else if v, ok := x.vals[lim]; ok {
				lt = v
			} else {
				return "", fmt.Errorf("limit unavailable")
			}
			return fmt.Sprintf("(or (< %s %s) (< %s 0))", t, lt, t), nil
		}})
	}
	// loop frame: objects that existed at loop entry and are not listed keep
	// their contents (relative to the loop entry state)
	if fc != nil {
		if lc := fc.Loops[li.ordinal]; lc != nil && lc.HasModifies && !eff.All {
			for _, bf := range sortedKeys(eff.Writes) {
				for _, fam := range e.famArrays(bf) {
					fam := fam
					out = append(out, invItem{name: fmt.Sprintf("%d:loopframe:%s", li.ordinal, fam), props: lc.ModProps, text: "loop modifies " + lc.ModText + " (family " + fam + ")", eval: func(env *Env) (Term, error) {
						entryEnv := *env
						entryEnv.st = li.entryState
						conds := []string{"(< 0 r)", "(< r " + li.entryState.alloc + ")"}
						for _, m := range lc.Modifies {
							tv, err := entryEnv.eval(m)
							if err != nil {
								return "", err
							}
							for _, r := range refOf(tv) {
								conds = append(conds, "(not (= r "+r+"))")
							}
						}
						now, was := e.get(env.st, fam), e.get(li.entryState, fam)
						if now == was {
							return "true", nil
						}
						return fmt.Sprintf("(forall ((r Int)) (! (=> (and %s) (= (select %s r) (select %s r))) :pattern ((select %s r))))", strings.Join(conds, " "), now, was, now), nil
					}})
				}
			}
		}
	}
	// automatic function-frame invariant: objects that existed at function
	// entry and are not in the function's modifies list are unchanged.
	if x.top && fc != nil && fc.Mod(e.profile) != nil && !eff.All {
		for _, bf := range sortedKeys(eff.Writes) {
			for _, fam := range e.famArrays(bf) {
				fam := fam
				out = append(out, invItem{name: fmt.Sprintf("%d:frame:%s", li.ordinal, fam), props: nil, text: "function frame holds for " + fam, eval: func(env *Env) (Term, error) {
					return x.frameGoal(env, fam)
				}})
			}
		}
	}
	return out
}

// famArrays lists the registered array families of a base family.
func (e *enc) famArrays(bf string) []string {
	var out []string
	for _, f := range e.famOrder {
		if baseFam(f) == bf {
			out = append(out, f)
		}
	}
	return out
}

// frameGoal: ∀r. 0<r<alloc0 ∧ r∉Modifies ⇒ A_now[r] = A_entry[r]
func (x *fx) frameGoal(env *Env, fam string) (Term, error) {
	e := x.e
	fc := x.fc
	oldEnv := *env
	oldEnv.st = x.entry
	oldEnv.inOld = true // modifies lists name the objects as they were at entry
	conds := []string{"(< 0 r)", "(< r " + x.entry.alloc + ")"}
	for _, m := range fc.Mod(e.profile).Exprs {
		tv, err := oldEnv.eval(m)
		if err != nil {
			return "", err
		}
		for _, r := range refOf(tv) {
			conds = append(conds, "(not (= r "+r+"))")
		}
	}
	now, was := e.get(env.st, fam), e.get(x.entry, fam)
	if now == was {
		return "true", nil
	}
	return fmt.Sprintf("(forall ((r Int)) (=> (and %s) (= (select %s r) (select %s r))))", strings.Join(conds, " "), now, was), nil
}

func (x *fx) loopHead(li *loopInfo, b *ssa.BasicBlock, st *State, reach Term, preds []*ssa.BasicBlock, conds []Term) (*State, Term) {
	e := x.e
	ec := e.effCtx()
	eff := ec.ofBlocks(x.fn, li.blocks)
	x.registerEffects(eff)
	li.entryState = st.clone()
	li.entryCond = reach
	// entry values of the header phis
	entryVals := map[*ssa.Phi]Term{}
	for _, in := range b.Instrs {
		ph, ok := in.(*ssa.Phi)
		if !ok {
			break
		}
		var ts []Term
		for _, p := range preds {
			for i, bp := range b.Preds {
				if bp == p {
					ts = append(ts, x.val(ph.Edges[i]))
					break
				}
			}
		}
		if len(ts) > 0 {
			entryVals[ph] = e.define(ph.Name()+"@entry", e.S.sortOf(ph.Type()), iteChain(conds, ts))
		}
	}
	invs := x.loopInvariants(li, eff)
	if !x.top && len(invs) == 0 {
		e.note("loop in inlined function " + x.fn.Name() + " without invariants")
	}
	// 1. invariants hold on entry
	envE := x.envAt(st, b, entryVals, false)
	envE.loopSt = li.entryState
	for _, iv := range invs {
		t, err := iv.eval(envE)
		if err != nil {
			e.bindingErrorText(x.fn, iv.name, iv.text, err)
			continue
		}
		e.oblig("inv-entry", "inv-entry."+iv.name, iv.props, reach, t, x.pos(b.Instrs[0].Pos()), iv.text)
	}
	// 2. havoc what the loop may change
	sp := x.specOf(eff, "loop "+fmt.Sprint(li.ordinal)+" of "+x.fn.Name())
	if eff.All {
		sp.unknown = true
		e.note(fmt.Sprintf("loop %d of %s has an effect with unknown frame: %s", li.ordinal, x.fn.Name(), eff.Why))
	}
	head := e.havoc(st, sp)
	for _, lb := range li.blocks {
		for _, in := range lb.Instrs {
			if rg, ok := in.(*ssa.Range); ok {
				_ = rg
			}
			if nx, ok := in.(*ssa.Next); ok {
				if rg, ok := nx.Iter.(*ssa.Range); ok {
					if rec := x.ranges[rg]; rec != nil && lb == b {
						head.ghost[rec.ghost] = e.declare("seen", e.famSort["ghost:"+rec.ghost])
					}
				}
			}
		}
	}
	// call logs are loop-carried ghost state
	loopKeys := e.effCtx().logKeysBlocks(x.fn, li.blocks)
	for _, gk := range sortedKeys(head.ghost) {
		if strings.HasPrefix(gk, "fret:") {
			continue
		}
		if logHit(loopKeys, gk) {
			prev := head.ghost[gk]
			head.ghost[gk] = e.declare("ghost:"+gk, e.ghostSort(gk))
			if strings.HasPrefix(gk, "n:") {
				e.assume(fmt.Sprintf("(>= %s %s)", head.ghost[gk], prev))
			}
		}
	}
	if loopLocks(li.blocks) {
		for _, gk := range sortedKeys(head.ghost) {
			if strings.HasPrefix(gk, "lk:") {
				head.ghost[gk] = e.declare("ghost:"+gk, "Int")
			}
		}
	}
	li.phiConst = map[*ssa.Phi]Term{}
	for _, in := range b.Instrs {
		ph, ok := in.(*ssa.Phi)
		if !ok {
			break
		}
		c := e.declare(ph.Name(), e.S.sortOf(ph.Type()))
		e.assumeWF(c, ph.Type(), head.alloc)
		li.phiConst[ph] = c
		x.vals[ph] = c
	}
	li.headState = head.clone()
	// 3. assume the invariants
	envH := x.envAt(head, b, li.phiConst, false)
	envH.loopSt = li.entryState
	envH.hyp = true
	for _, iv := range invs {
		t, err := iv.eval(envH)
		if err != nil {
			continue
		}
		e.curGroup = groupOf(iv.props)
		e.assume(implies(reach, t))
		e.curGroup = ""
	}
	if x.fc != nil {
		if lc := x.fc.Loops[li.ordinal]; lc != nil {
			for _, gf := range lc.GhostFns {
				// one point of the ghost function is defined per iteration (the index is strictly monotonic)
				iv, err1 := envH.eval(gf.Idx)
				vv, err2 := envH.eval(gf.Val)
				if err1 != nil || err2 != nil {
					e.bindingErrorText(x.fn, "ghostfn:"+gf.Name, gf.Text, fmt.Errorf("%v %v", err1, err2))
					continue
				}
				e.assume(implies(reach, fmt.Sprintf("(= (%s %s) %s)", q("gf:"+gf.Name), iv.T, vv.T)))
			}
		}
	}
	if x.fc != nil {
		if lc := x.fc.Loops[li.ordinal]; lc != nil && lc.Decreases != nil {
			tv, err := envH.eval(lc.Decreases.Expr)
			if err == nil {
				li.decHead = e.define("variant", "Int", tv.T)
			} else {
				e.bindingError(FuncKey(x.fn), lc.Decreases, err)
			}
		}
	}
	return head, reach
}

func (x *fx) loopBack(li *loopInfo, from *ssa.BasicBlock, cond Term) {
	e := x.e
	b := li.header
	st := x.out[from]
	ec := e.effCtx()
	eff := ec.ofBlocks(x.fn, li.blocks)
	backVals := map[*ssa.Phi]Term{}
	for _, in := range b.Instrs {
		ph, ok := in.(*ssa.Phi)
		if !ok {
			break
		}
		for i, bp := range b.Preds {
			if bp == from {
				backVals[ph] = x.val(ph.Edges[i])
				break
			}
		}
	}
	env := x.envAt(st, b, backVals, false)
	env.loopSt = li.entryState
	for _, iv := range x.loopInvariants(li, eff) {
		t, err := iv.eval(env)
		if err != nil {
			continue
		}
		e.oblig("inv-step", "inv-step."+iv.name, iv.props, cond, t, x.pos(b.Instrs[0].Pos()), iv.text)
	}
	if li.decHead != "" && x.fc != nil {
		lc := x.fc.Loops[li.ordinal]
		tv, err := env.eval(lc.Decreases.Expr)
		if err == nil {
			e.oblig("decreases", fmt.Sprintf("decreases.%d", li.ordinal), lc.Decreases.Props, cond,
				fmt.Sprintf("(and (< %s %s) (>= %s 0))", tv.T, li.decHead, tv.T), x.pos(b.Instrs[0].Pos()), lc.Decreases.Text)
		}
	}
}

func (e *enc) bindingError(key string, c *Clause, err error) {
	e.oblig("binding", fmt.Sprintf("binding:%s:%s:%d", shortKey(key), c.Kind, c.Line), c.Props, "true", "false", fmt.Sprintf("%s:%d", c.File, c.Line),
		"contract clause cannot be bound to the code: "+err.Error()+" in: "+c.Text)
}

func (e *enc) bindingErrorText(fn *ssa.Function, name, text string, err error) {
	e.oblig("binding", "binding:"+name, nil, "true", "false", "", "contract clause cannot be bound to the code: "+err.Error()+" in: "+text)
}
