package vc

import (
	"bytes"
	"context"
	"fmt"
	"os"
	"os/exec"
	"path/filepath"
	"regexp"
	"strings"
	"sync"
	"time"
)

type Answer struct {
	Solver string  `json:"solver"`
	Result string  `json:"result"`
	Secs   float64 `json:"seconds"`
}

type Result struct {
	O       *Oblig
	Status  string // proved | failed | vacuous | ok-nonvacuous
	Solver  string
	Secs    float64
	Answers []Answer
	File    string
}

type SolveOpts struct {
	TimeoutS int
	Seed     int
	OutDir   string
	Workers  int
	Thorough bool
	Known    map[string]bool
}

var nameSan = regexp.MustCompile(`[^A-Za-z0-9_.#:@~-]+`)

func runSolver(ctx context.Context, solver string, file string, timeoutS int, seed int) Answer {
	var cmd *exec.Cmd
	switch solver {
	case "z3-new":
		cmd = exec.CommandContext(ctx, "z3-new", fmt.Sprintf("-T:%d", timeoutS), fmt.Sprintf("smt.random_seed=%d", seed), fmt.Sprintf("sat.random_seed=%d", seed), file)
	case "z3":
		cmd = exec.CommandContext(ctx, "z3", fmt.Sprintf("-T:%d", timeoutS), fmt.Sprintf("smt.random_seed=%d", seed), file)
	case "cvc5":
		cmd = exec.CommandContext(ctx, "cvc5", "--strings-exp", fmt.Sprintf("--tlimit=%d", timeoutS*1000), fmt.Sprintf("--seed=%d", seed), file)
	}
	var out bytes.Buffer
	cmd.Stdout = &out
	cmd.Stderr = &out
	t0 := time.Now()
	_ = cmd.Run()
	secs := time.Since(t0).Seconds()
	first := ""
	for _, ln := range strings.Split(out.String(), "\n") {
		ln = strings.TrimSpace(ln)
		if ln == "" || strings.HasPrefix(ln, "WARNING") || strings.HasPrefix(ln, "(warning") {
			continue
		}
		first = ln
		break
	}
	res := "error: " + first
	switch {
	case first == "unsat" || first == "sat" || first == "unknown":
		res = first
	case strings.Contains(first, "timeout") || strings.Contains(out.String(), "interrupted by timeout") || ctx.Err() != nil:
		res = "timeout"
	case first == "":
		res = "timeout"
	}
	return Answer{Solver: solver, Result: res, Secs: secs}
}

// Solve discharges the obligations in parallel.
func Solve(obs []*Oblig, opts SolveOpts) []*Result {
	if opts.Workers <= 0 {
		opts.Workers = 12
	}
	os.MkdirAll(opts.OutDir, 0o755)
	results := make([]*Result, len(obs))
	var wg sync.WaitGroup
	sem := make(chan struct{}, opts.Workers)
	for i, o := range obs {
		wg.Add(1)
		go func(i int, o *Oblig) {
			defer wg.Done()
			sem <- struct{}{}
			defer func() { <-sem }()
			results[i] = solveOne(o, opts)
		}(i, o)
	}
	wg.Wait()
	return results
}

func solveOne(o *Oblig, opts SolveOpts) *Result {
	file := filepath.Join(opts.OutDir, nameSan.ReplaceAllString(o.Name, "_")+".smt2")
	if len(file) > 240 {
		file = file[:230] + ".smt2"
	}
	q := o.unit.Query(o)
	os.WriteFile(file, []byte(q), 0o644)
	r := &Result{O: o, File: file}
	if o.Expect == "sat" {
		// vacuity canary: the hypotheses must not be refutable
		ct := 2
		if opts.Thorough {
			ct = 15 // thorough: try harder to get a definite reachable/unreachable answer
		}
		a := runSolver(context.Background(), "z3-new", file, ct, opts.Seed)
		r.Answers = append(r.Answers, a)
		r.Solver, r.Secs = a.Solver, a.Secs
		if a.Result == "unsat" {
			r.Status = "vacuous"
		} else {
			r.Status = "ok-nonvacuous"
		}
		return r
	}
	if o.Goal == "false" && o.Hyp == "true" {
		r.Status = "failed"
		r.Answers = append(r.Answers, Answer{Solver: "none", Result: "trivially-invalid"})
		return r
	}
	t0 := time.Now()
	if opts.Known[o.Name] {
		// recorded known finding: one short attempt, no retries (it is expected to fail)
		a := runSolver(context.Background(), "z3-new", file, 5, opts.Seed)
		r.Answers = append(r.Answers, a)
		r.Secs = a.Secs
		if a.Result == "unsat" {
			r.Status, r.Solver = "proved", a.Solver
		} else {
			r.Status = "failed"
		}
		return r
	}
	// quick attempt with the main solver, then race all three
	a := runSolver(context.Background(), "z3-new", file, 2, opts.Seed)
	r.Answers = append(r.Answers, a)
	if a.Result == "unsat" {
		r.Status, r.Solver, r.Secs = "proved", a.Solver, a.Secs
		return r
	}
	ctx, cancel := context.WithCancel(context.Background())
	defer cancel()
	ch := make(chan Answer, 4)
	racers := []string{"z3", "cvc5"}
	for _, s := range racers {
		go func(s string) { ch <- runSolver(ctx, s, file, opts.TimeoutS, opts.Seed) }(s)
	}
	n := len(racers)
	if a.Result != "sat" {
		n += 2
		go func() { ch <- runSolver(ctx, "z3-new", file, opts.TimeoutS, opts.Seed) }()
		go func() { ch <- runSolver(ctx, "z3-new", file, opts.TimeoutS, opts.Seed+7919) }()
	}
	for i := 0; i < n; i++ {
		b := <-ch
		r.Answers = append(r.Answers, b)
		if b.Result == "unsat" {
			r.Status, r.Solver, r.Secs = "proved", b.Solver, time.Since(t0).Seconds()
			cancel()
			return r
		}
	}
	r.Status = "failed"
	r.Secs = time.Since(t0).Seconds()
	return r
}
