package vc

import (
	"fmt"
	"go/constant"
	"go/types"
	"math/big"
	"sort"
	"strings"
)

// Term is an SMT-LIB term in text form.
type Term = string

const prelude = `(set-option :produce-models true)
(set-logic ALL)
(declare-datatypes ((Val 0)) (((VNil) (VBool (tB Int) (vb Bool)) (VInt (tI Int) (vi Int)) (VFloat (tF Int) (vf Real)) (VStr (tS Int) (vs String)) (VRef (tR Int) (vr Int)) (VSlice (tL Int) (lr Int) (lo Int) (ll Int) (lc Int)) (VOpaque (tO Int) (vo Int)))))
(declare-datatypes ((Slice 0)) (((mkSlice (sref Int) (soff Int) (slen Int) (scap Int)))))
(define-fun tid ((v Val)) Int (ite ((_ is VBool) v) (tB v) (ite ((_ is VInt) v) (tI v) (ite ((_ is VFloat) v) (tF v) (ite ((_ is VStr) v) (tS v) (ite ((_ is VRef) v) (tR v) (ite ((_ is VSlice) v) (tL v) (ite ((_ is VOpaque) v) (tO v) 0))))))))
(declare-fun errtext (Val) String)
(declare-fun plainerr (Val) Bool)
(define-fun vref ((v Val)) Int (ite ((_ is VRef) v) (vr v) (ite ((_ is VSlice) v) (lr v) 0)))
`

// sorts holds the per-unit registry of sorts, struct datatypes and type ids.
type sorts struct {
	structDecls []string          // datatype declarations in dependency order
	structName  map[string]string // type string -> sort name
	typeIDs     map[string]int
	typeByID    []types.Type
	boxDecl     map[string]bool
	extraDecls  []string
}

func newSorts() *sorts {
	return &sorts{structName: map[string]string{}, typeIDs: map[string]int{}, boxDecl: map[string]bool{}, typeByID: []types.Type{nil}}
}

func q(s string) string { return "|" + strings.NewReplacer("|", "!", "\\", "!").Replace(s) + "|" }

func fullTypeStr(t types.Type) string {
	s := types.TypeString(t, nil)
	if strings.Contains(s, "any") {
		s = anyWord.ReplaceAllString(s, "interface{}") // `any` and interface{} are one type
	}
	return s
}

func (s *sorts) typeID(t types.Type) int {
	k := fullTypeStr(t)
	if id, ok := s.typeIDs[k]; ok {
		return id
	}
	id := len(s.typeByID)
	s.typeIDs[k] = id
	s.typeByID = append(s.typeByID, t)
	return id
}

// sortOf maps a Go type to an SMT sort.
func (s *sorts) sortOf(t types.Type) string {
	switch u := t.Underlying().(type) {
	case *types.Basic:
		switch {
		case u.Info()&types.IsBoolean != 0:
			return "Bool"
		case u.Info()&types.IsInteger != 0:
			return "Int"
		case u.Info()&types.IsFloat != 0:
			return "Real"
		case u.Info()&types.IsString != 0:
			return "String"
		case u.Kind() == types.UnsafePointer:
			return "Int"
		case u.Kind() == types.UntypedNil:
			return "Int"
		}
		return "Int"
	case *types.Pointer, *types.Map, *types.Chan, *types.Signature:
		return "Int"
	case *types.Slice:
		return "Slice"
	case *types.Interface:
		return "Val"
	case *types.Struct:
		return s.structSort(t, u)
	case *types.Array:
		return "(Array Int " + s.sortOf(u.Elem()) + ")"
	case *types.Tuple:
		return "Int" // not used as a value
	}
	return "Int"
}

func (s *sorts) structSort(t types.Type, u *types.Struct) string {
	k := typeStr(t)
	if n, ok := s.structName[k]; ok {
		return n
	}
	name := q("S:" + k)
	s.structName[k] = name
	var fields []string
	for i := 0; i < u.NumFields(); i++ {
		fs := s.sortOf(u.Field(i).Type())
		fields = append(fields, fmt.Sprintf("(%s %s)", s.fieldAcc(t, i), fs))
	}
	if len(fields) == 0 {
		fields = append(fields, fmt.Sprintf("(%s Int)", q("F:"+k+".#empty")))
	}
	s.structDecls = append(s.structDecls, fmt.Sprintf("(declare-datatypes ((%s 0)) (((%s %s))))", name, q("mk:"+k), strings.Join(fields, " ")))
	return name
}

func (s *sorts) fieldAcc(t types.Type, i int) string {
	u := t.Underlying().(*types.Struct)
	name := u.Field(i).Name()
	if name == "_" {
		// several blank fields may occur in one struct (padding, noCopy markers)
		name = fmt.Sprintf("_%d", i)
	}
	return q("F:" + typeStr(t) + "." + name)
}

func (s *sorts) structCtor(t types.Type) string { return q("mk:" + typeStr(t)) }

// mkStruct builds a struct value from field terms.
func (s *sorts) mkStruct(t types.Type, fields []Term) Term {
	s.sortOf(t)
	if len(fields) == 0 {
		return "(" + s.structCtor(t) + " 0)"
	}
	return "(" + s.structCtor(t) + " " + strings.Join(fields, " ") + ")"
}

// withField returns a copy of struct value v with field i replaced.
func (s *sorts) withField(t types.Type, v Term, i int, nv Term) Term {
	u := t.Underlying().(*types.Struct)
	fs := make([]Term, u.NumFields())
	for j := range fs {
		if j == i {
			fs[j] = nv
		} else {
			fs[j] = fmt.Sprintf("(%s %s)", s.fieldAcc(t, j), v)
		}
	}
	return s.mkStruct(t, fs)
}

// zero is the zero value of a type.
func (s *sorts) zero(t types.Type) Term {
	switch u := t.Underlying().(type) {
	case *types.Basic:
		switch {
		case u.Info()&types.IsBoolean != 0:
			return "false"
		case u.Info()&types.IsInteger != 0:
			return "0"
		case u.Info()&types.IsFloat != 0:
			return "0.0"
		case u.Info()&types.IsString != 0:
			return `""`
		}
		return "0"
	case *types.Slice:
		return "(mkSlice 0 0 0 0)"
	case *types.Interface:
		return "VNil"
	case *types.Struct:
		fs := make([]Term, u.NumFields())
		for i := range fs {
			fs[i] = s.zero(u.Field(i).Type())
		}
		return s.mkStruct(t, fs)
	case *types.Array:
		return fmt.Sprintf("((as const %s) %s)", s.sortOf(t), s.zero(u.Elem()))
	}
	return "0"
}

func isInterface(t types.Type) bool {
	_, ok := t.Underlying().(*types.Interface)
	return ok
}

// toVal injects a value of static type t into Val (MakeInterface).
func (s *sorts) toVal(v Term, t types.Type) Term {
	if isInterface(t) {
		return v
	}
	id := s.typeID(t)
	switch u := t.Underlying().(type) {
	case *types.Basic:
		switch {
		case u.Info()&types.IsBoolean != 0:
			return fmt.Sprintf("(VBool %d %s)", id, v)
		case u.Info()&types.IsInteger != 0:
			return fmt.Sprintf("(VInt %d %s)", id, v)
		case u.Info()&types.IsFloat != 0:
			return fmt.Sprintf("(VFloat %d %s)", id, v)
		case u.Info()&types.IsString != 0:
			return fmt.Sprintf("(VStr %d %s)", id, v)
		case u.Kind() == types.UntypedNil:
			return "VNil"
		}
		return fmt.Sprintf("(VRef %d %s)", id, v)
	case *types.Pointer, *types.Map, *types.Chan, *types.Signature:
		return fmt.Sprintf("(VRef %d %s)", id, v)
	case *types.Slice:
		return fmt.Sprintf("(VSlice %d (sref %s) (soff %s) (slen %s) (scap %s))", id, v, v, v, v)
	}
	// structs, arrays: opaque boxed
	bx := s.boxFns(t)
	return fmt.Sprintf("(VOpaque %d (%s %s))", id, bx[0], v)
}

func (s *sorts) boxFns(t types.Type) [2]string {
	k := typeStr(t)
	b, ub := q("box:"+k), q("unbox:"+k)
	if !s.boxDecl[k] {
		s.boxDecl[k] = true
		so := s.sortOf(t)
		s.extraDecls = append(s.extraDecls,
			fmt.Sprintf("(declare-fun %s (%s) Int)", b, so),
			fmt.Sprintf("(declare-fun %s (Int) %s)", ub, so),
			fmt.Sprintf("(assert (forall ((x %s)) (! (= (%s (%s x)) x) :pattern ((%s x)))))", so, ub, b, b))
	}
	return [2]string{b, ub}
}

// fromVal projects a Val known to hold dynamic type t.
func (s *sorts) fromVal(v Term, t types.Type) Term {
	if isInterface(t) {
		return v
	}
	switch u := t.Underlying().(type) {
	case *types.Basic:
		switch {
		case u.Info()&types.IsBoolean != 0:
			return "(vb " + v + ")"
		case u.Info()&types.IsInteger != 0:
			return "(vi " + v + ")"
		case u.Info()&types.IsFloat != 0:
			return "(vf " + v + ")"
		case u.Info()&types.IsString != 0:
			return "(vs " + v + ")"
		}
		return "(vr " + v + ")"
	case *types.Pointer, *types.Map, *types.Chan, *types.Signature:
		return "(vr " + v + ")"
	case *types.Slice:
		return fmt.Sprintf("(mkSlice (lr %s) (lo %s) (ll %s) (lc %s))", v, v, v, v)
	}
	bx := s.boxFns(t)
	return fmt.Sprintf("(%s (vo %s))", bx[1], v)
}

// hasType is the test "dynamic type of v is exactly t" for concrete t.
func (s *sorts) hasType(v Term, t types.Type) Term {
	id := s.typeID(t)
	tester := ""
	switch u := t.Underlying().(type) {
	case *types.Basic:
		switch {
		case u.Info()&types.IsBoolean != 0:
			tester = "VBool"
		case u.Info()&types.IsInteger != 0:
			tester = "VInt"
		case u.Info()&types.IsFloat != 0:
			tester = "VFloat"
		case u.Info()&types.IsString != 0:
			tester = "VStr"
		default:
			tester = "VRef"
		}
	case *types.Pointer, *types.Map, *types.Chan, *types.Signature:
		tester = "VRef"
	case *types.Slice:
		tester = "VSlice"
	default:
		tester = "VOpaque"
	}
	return fmt.Sprintf("(and ((_ is %s) %s) (= (tid %s) %d))", tester, v, v, id)
}

// valWF: a Val whose tag says VFoo carries a type id of a type of that shape.
// (Used as a well-formedness assumption on symbolic Vals.)
func (s *sorts) decls() string {
	var sb strings.Builder
	for _, d := range s.structDecls {
		sb.WriteString(d)
		sb.WriteString("\n")
	}
	for _, d := range s.extraDecls {
		sb.WriteString(d)
		sb.WriteString("\n")
	}
	return sb.String()
}

// typeTable lists the registered type ids (for evidence/debugging).
func (s *sorts) typeTable() []string {
	var out []string
	for k, id := range s.typeIDs {
		out = append(out, fmt.Sprintf("%d=%s", id, k))
	}
	sort.Strings(out)
	return out
}

func smtString(v string) string {
	var sb strings.Builder
	sb.WriteByte('"')
	for _, r := range v {
		switch {
		case r == '"':
			sb.WriteString(`""`)
		case r == '\\':
			sb.WriteString(`\u{5c}`)
		case r < 32 || r > 126:
			sb.WriteString(fmt.Sprintf(`\u{%x}`, r))
		default:
			sb.WriteRune(r)
		}
	}
	sb.WriteByte('"')
	return sb.String()
}

func smtInt(n int64) string {
	if n < 0 {
		return fmt.Sprintf("(- %d)", -n)
	}
	return fmt.Sprint(n)
}

func smtBigInt(n *big.Int) string {
	if n.Sign() < 0 {
		return "(- " + new(big.Int).Neg(n).String() + ")"
	}
	return n.String()
}

// constTerm renders a Go constant of type t.
func (s *sorts) constTerm(c constant.Value, t types.Type) Term {
	if c == nil {
		return s.zero(t)
	}
	switch u := t.Underlying().(type) {
	case *types.Basic:
		switch {
		case u.Info()&types.IsBoolean != 0:
			if constant.BoolVal(c) {
				return "true"
			}
			return "false"
		case u.Info()&types.IsInteger != 0:
			if i, ok := constant.Int64Val(constant.ToInt(c)); ok {
				return smtInt(i)
			}
			bi, _ := new(big.Int).SetString(constant.ToInt(c).ExactString(), 10)
			if bi != nil {
				return smtBigInt(bi)
			}
			return "0"
		case u.Info()&types.IsFloat != 0:
			r := constant.ToFloat(c)
			num, den := constant.Num(r), constant.Denom(r)
			if num.Kind() == constant.Int && den.Kind() == constant.Int {
				ns := num.ExactString()
				neg := strings.HasPrefix(ns, "-")
				ns = strings.TrimPrefix(ns, "-")
				tm := fmt.Sprintf("(/ %s.0 %s.0)", ns, den.ExactString())
				if neg {
					tm = "(- " + tm + ")"
				}
				return tm
			}
			f, _ := constant.Float64Val(r)
			return fmt.Sprintf("%f", f)
		case u.Info()&types.IsString != 0:
			return smtString(constant.StringVal(c))
		}
	}
	return s.zero(t)
}
