package vc

import (
	"fmt"
	"go/types"
	"sort"
	"strings"

	"golang.org/x/tools/go/ssa"
)

// Oblig is one proof obligation: lines[:NLines] ∧ Hyp ⇒ Goal.
type Oblig struct {
	Name   string
	Kind   string // safety class, post, pre, inv-entry, inv-step, frame, decreases, vacuity
	Props  []string
	Fn     string
	Hyp    Term
	Goal   Term
	NLines int
	Pos    string
	Text   string
	Expect string // "unsat" normally; "sat" for vacuity covers
	Group  string // hypothesis group (see groupOf)
	unit   *Unit
}

// Unit is the encoding of one function under contract.
type Unit struct {
	Fn        string
	Prelude   string
	Lines     []string
	LineGroup map[int]string
	Obligs    []*Oblig
	Notes     []string // abstractions / unsupported features met while encoding
	Trusted   []string // trusted contracts used
	Inlined   []string
	Callees   []string // contracts used modularly
	e         *enc
}

// Query renders the SMT-LIB text of one obligation.
func (u *Unit) Query(o *Oblig) string {
	var sb strings.Builder
	sb.WriteString(prelude)
	sb.WriteString(u.e.S.decls())
	dup := map[string]bool{}
	for i, l := range u.Lines[:o.NLines] {
		if g := u.LineGroup[i]; g != "" && g != o.Group {
			continue
		}
		if strings.HasPrefix(l, "(assert ") {
			// the same side fact is often emitted at several reads
			if dup[l] {
				continue
			}
			dup[l] = true
		}
		sb.WriteString(l)
		sb.WriteString("\n")
	}
	sb.WriteString("; obligation " + o.Name + "\n")
	if o.Expect == "sat" {
		sb.WriteString("(assert " + o.Hyp + ")\n")
	} else {
		sb.WriteString("(assert " + o.Hyp + ")\n(assert (not " + o.Goal + "))\n")
	}
	sb.WriteString("(check-sat)\n")
	return sb.String()
}

type enc struct {
	P        *Program
	S        *sorts
	lines    []string
	n        int
	obligs   []*Oblig
	famSort  map[string]string
	famOrder []string
	profile  string
	prop     string
	notes    map[string]bool
	trusted  map[string]bool
	inlined  map[string]bool
	callees  map[string]bool
	unitName string
	names    map[string]int // obligation name de-duplication
	globals  map[string]Term
	funcRefs map[string]Term
	fnByRef  map[string]interface{}
	entryB   *baseNode
	logicals map[string]TV

	ec          *effCtx
	closByRef   map[string]*closureVal
	inlineBusy  map[*ssa.Function]bool
	rootFC      *FuncContract
	safetyProps []string
	entryState  *State
	wfree       bool   // a writes clause is in force for this unit
	writeRefs   []Term // pre-existing objects that may be written
	writeProps  []string
	closed      map[string]bool
	defText     map[string]string
	curGroup    string
	lineGroup   map[int]string
	ghostFns    map[string]bool
	ghostFnStr  map[string]bool
	ghostFnAny  map[string]bool
	ghostEntry  map[string]Term
	ghostTy     map[string]types.Type
}

func (e *enc) fresh(prefix string) string {
	e.n++
	return q(fmt.Sprintf("%s!%d", prefix, e.n))
}

func (e *enc) emit(l string) {
	if e.curGroup != "" && strings.HasPrefix(l, "(assert ") {
		if e.lineGroup == nil {
			e.lineGroup = map[int]string{}
		}
		e.lineGroup[len(e.lines)] = e.curGroup
	}
	e.lines = append(e.lines, l)
}

// groupOf: a clause tagged [..,group:G] belongs to hypothesis group G. The
// hypotheses of a group are visible only to the obligations of the same group
// (leaving a hypothesis out of a query is always sound); this keeps unrelated
// families of quantified invariants out of each other's queries.
func groupOf(props []string) string {
	for _, p := range props {
		if strings.HasPrefix(p, "group:") {
			return strings.TrimPrefix(p, "group:")
		}
	}
	return ""
}

func (e *enc) declare(prefix, sort string) Term {
	n := e.fresh(prefix)
	e.emit(fmt.Sprintf("(declare-const %s %s)", n, sort))
	return n
}

// declareFun declares a fresh uninterpreted unary function.
func (e *enc) declareFun(prefix, dom, rng string) Term {
	n := e.fresh(prefix)
	e.emit(fmt.Sprintf("(declare-fun %s (%s) %s)", n, dom, rng))
	return n
}

func (e *enc) define(prefix, sort string, t Term) Term {
	n := e.fresh(prefix)
	e.emit(fmt.Sprintf("(define-fun %s () %s %s)", n, sort, t))
	return n
}

// pin introduces a declared constant equal to t (usable inside patterns,
// unlike a define-fun, whose expansion may contain ite/not).
func (e *enc) pin(prefix, sort string, t Term) Term {
	n := e.declare(prefix, sort)
	e.emit(fmt.Sprintf("(assert (= %s %s))", n, t))
	return n
}

func (e *enc) assume(t Term) {
	if t == "true" || t == "" {
		return
	}
	e.emit("(assert " + t + ")")
}

func (e *enc) note(s string) { e.notes[s] = true }

// splitConj splits a goal into conjuncts: (and a b), (=> h (and a b)) (one
// solver query per conjunct discharges far more reliably than one big goal).
func splitConj(goal Term) []Term {
	parts := sexprArgs(goal)
	if len(parts) >= 2 && parts[0] == "and" {
		var out []Term
		for _, p := range parts[1:] {
			out = append(out, splitConj(p)...)
		}
		return out
	}
	if len(parts) == 3 && parts[0] == "=>" {
		sub := splitConj(parts[2])
		if len(sub) > 1 {
			var out []Term
			for _, s := range sub {
				out = append(out, "(=> "+parts[1]+" "+s+")")
			}
			return out
		}
	}
	if len(parts) == 3 && (parts[0] == "forall" || parts[0] == "let") && !strings.HasPrefix(strings.TrimSpace(parts[2]), "(!") {
		// a universally quantified conjunction is the conjunction of the quantified conjuncts
		sub := splitConj(parts[2])
		if len(sub) > 1 {
			var out []Term
			for _, s := range sub {
				out = append(out, "("+parts[0]+" "+parts[1]+" "+s+")")
			}
			return out
		}
	}
	return []Term{goal}
}

// sexprArgs returns the top-level elements of a parenthesised term (head first), or nil for atoms.
func sexprArgs(t Term) []string {
	t = strings.TrimSpace(t)
	if len(t) < 2 || t[0] != '(' || t[len(t)-1] != ')' {
		return nil
	}
	body := t[1 : len(t)-1]
	var out []string
	depth := 0
	start := -1
	inBar, inStr := false, false
	for i := 0; i < len(body); i++ {
		c := body[i]
		switch {
		case inBar:
			if c == '|' {
				inBar = false
			}
			continue
		case inStr:
			if c == '"' {
				inStr = false
			}
			continue
		}
		switch c {
		case '|':
			inBar = true
			if start < 0 {
				start = i
			}
		case '"':
			inStr = true
			if start < 0 {
				start = i
			}
		case '(':
			if start < 0 {
				start = i
			}
			depth++
		case ')':
			depth--
		case ' ', '\n', '\t':
			if depth == 0 && start >= 0 {
				out = append(out, body[start:i])
				start = -1
			}
		default:
			if start < 0 {
				start = i
			}
		}
	}
	if start >= 0 {
		out = append(out, body[start:])
	}
	return out
}

func (e *enc) oblig(kind, name string, props []string, hyp, goal Term, pos, text string) *Oblig {
	if kind != "vacuity" && kind != "binding" {
		if parts := splitConj(goal); len(parts) > 1 {
			var first *Oblig
			for i, p := range parts {
				o := e.oblig1(kind, fmt.Sprintf("%s/%d", name, i+1), props, hyp, p, pos, text)
				if first == nil {
					first = o
				}
			}
			return first
		}
	}
	return e.oblig1(kind, name, props, hyp, goal, pos, text)
}

func (e *enc) oblig1(kind, name string, props []string, hyp, goal Term, pos, text string) *Oblig {
	full := e.unitName + "#" + name
	e.names[full]++
	if c := e.names[full]; c > 1 {
		full = fmt.Sprintf("%s~%d", full, c)
	}
	o := &Oblig{Name: full, Kind: kind, Props: props, Fn: e.unitName, Hyp: hyp, Goal: goal, NLines: len(e.lines), Pos: pos, Text: text, Expect: "unsat", Group: groupOf(props)}
	e.obligs = append(e.obligs, o)
	return o
}

// ---------- heap families ----------

func famPtr(t types.Type) string  { return "H:" + typeStr(t) }
func famElem(t types.Type) string { return "E:" + typeStr(t) }
func famMap(t types.Type) string  { return "M:" + typeStr(t.Underlying()) }

func (e *enc) regFam(name, sort string) {
	if _, ok := e.famSort[name]; !ok {
		e.famSort[name] = sort
		// element sort: "(Array Int X)" -> X
		e.famSort["elem:"+name] = strings.TrimSuffix(strings.TrimPrefix(sort, "(Array Int "), ")")
		e.famOrder = append(e.famOrder, name)
	}
}

func (e *enc) ptrFam(t types.Type) string {
	f := famPtr(t)
	e.regFam(f, "(Array Int "+e.S.sortOf(t)+")")
	return f
}

func (e *enc) elemFam(t types.Type) string {
	f := famElem(t)
	e.regFam(f, "(Array Int (Array Int "+e.S.sortOf(t)+"))")
	return f
}

// mapFams returns the dom, val, card family names of a map type.
func (e *enc) mapFams(t types.Type) (dom, val, card string) {
	m := t.Underlying().(*types.Map)
	f := famMap(t)
	ks, vs := e.S.sortOf(m.Key()), e.S.sortOf(m.Elem())
	e.regFam(f+".dom", "(Array Int (Array "+ks+" Bool))")
	e.regFam(f+".val", "(Array Int (Array "+ks+" "+vs+"))")
	e.regFam(f+".card", "(Array Int Int)")
	return f + ".dom", f + ".val", f + ".card"
}

// baseFam strips the .dom/.val/.card suffix.
func baseFam(f string) string {
	for _, s := range []string{".dom", ".val", ".card"} {
		if strings.HasSuffix(f, s) {
			return strings.TrimSuffix(f, s)
		}
	}
	return f
}

// State is a symbolic heap: versions of heap families, allocation counter,
// ghost variables.
type State struct {
	base  *baseNode
	fam   map[string]Term
	alloc Term
	ghost map[string]Term
	snaps map[string]*State // heap snapshots taken right after the first logged call of a contract
}

func (s *State) clone() *State {
	n := &State{base: s.base, fam: make(map[string]Term, len(s.fam)), alloc: s.alloc, ghost: make(map[string]Term, len(s.ghost))}
	for k, v := range s.fam {
		n.fam[k] = v
	}
	for k, v := range s.ghost {
		n.ghost[k] = v
	}
	if len(s.snaps) > 0 {
		n.snaps = make(map[string]*State, len(s.snaps))
		for k, v := range s.snaps {
			n.snaps[k] = v
		}
	}
	return n
}

type baseKind int

const (
	baseEntry baseKind = iota
	baseHavoc
	baseMerge
)

type havocSpec struct {
	all         bool            // every family may be affected
	affects     map[string]bool // base family names affected (written or allocated in)
	writesAll   bool            // old objects of every affected family may be modified ...
	writes      map[string]bool // ... or only of these base families
	modRefs     []Term          // if non-nil or exact: old objects that may be modified (others are preserved)
	modFams     []string        // base family of each modRef ("" = unknown)
	exact       bool            // modRefs is the complete list of modifiable old objects
	keepRefs    []Term          // objects preserved whatever happens (non-escaped locals)
	sinceMark   Term            // if set: objects allocated before this mark are preserved, younger ones may change
	unknown     bool            // frame unknown: any old object of any family may have been modified
	allocBefore Term
	why         string
}

type baseNode struct {
	kind   baseKind
	memo   map[string]Term
	prev   *State
	spec   *havocSpec
	conds  []Term
	states []*State
}

func (e *enc) get(st *State, fam string) Term {
	if t, ok := st.fam[fam]; ok {
		return t
	}
	return e.baseGet(st.base, fam)
}

func (e *enc) set(st *State, fam string, t Term) {
	sortS := e.famSort[fam]
	st.fam[fam] = e.define(fam, sortS, t)
}

func (e *enc) baseGet(b *baseNode, fam string) Term {
	if t, ok := b.memo[fam]; ok {
		return t
	}
	sortS, ok := e.famSort[fam]
	if !ok {
		panic("unregistered family " + fam)
	}
	var t Term
	switch b.kind {
	case baseEntry:
		t = q(fam + "@0")
		e.emit(fmt.Sprintf("(declare-const %s %s)", t, sortS))
	case baseHavoc:
		prev := e.get(b.prev, fam)
		sp := b.spec
		bf := baseFam(fam)
		if !sp.all && !sp.affects[bf] {
			t = prev
			break
		}
		written := sp.writesAll || sp.writes[bf]
		switch {
		case sp.sinceMark != "":
			t = e.declare(fam, sortS)
			e.assume(fmt.Sprintf("(forall ((r Int)) (! (=> (and (< 0 r) (< r %s)) (= (select %s r) (select %s r))) :pattern ((select %s r))))", sp.sinceMark, t, prev, t))
		case !written:
			// allocation only: old objects keep their contents; the contents of
			// objects the callee allocates are whatever the (unconstrained)
			// array holds beyond the allocation counter
			t = prev
		case sp.exact:
			// only the listed objects may have changed
			t = prev
			for i, m := range sp.modRefs {
				if i < len(sp.modFams) && sp.modFams[i] != "" && sp.modFams[i] != bf {
					continue
				}
				nv := e.declare("havoc:"+fam, e.famSort["elem:"+fam])
				t = fmt.Sprintf("(store %s %s %s)", t, m, nv)
			}
			if t != prev {
				t = e.define(fam, sortS, t)
			}
		default:
			t = e.declare(fam, sortS)
			for _, k := range sp.keepRefs {
				e.assume(fmt.Sprintf("(= (select %s %s) (select %s %s))", t, k, prev, k))
			}
		}
	case baseMerge:
		ts := make([]Term, len(b.states))
		same := true
		for i, s := range b.states {
			ts[i] = e.get(s, fam)
			if ts[i] != ts[0] {
				same = false
			}
		}
		if same {
			t = ts[0]
		} else {
			t = e.define(fam, sortS, iteChain(b.conds, ts))
		}
	}
	b.memo[fam] = t
	return t
}

func iteChain(conds []Term, ts []Term) Term {
	// last alternative is the default
	out := ts[len(ts)-1]
	for i := len(ts) - 2; i >= 0; i-- {
		if ts[i] == out {
			continue
		}
		out = fmt.Sprintf("(ite %s %s %s)", conds[i], ts[i], out)
	}
	return out
}

// merge joins states arriving over edges with the given conditions.
func (e *enc) merge(conds []Term, states []*State) *State {
	if len(states) == 1 {
		return states[0].clone()
	}
	b := &baseNode{kind: baseMerge, memo: map[string]Term{}, conds: conds, states: states}
	n := &State{base: b, fam: map[string]Term{}, ghost: map[string]Term{}}
	// alloc
	as := make([]Term, len(states))
	same := true
	for i, s := range states {
		as[i] = s.alloc
		if as[i] != as[0] {
			same = false
		}
	}
	if same {
		n.alloc = as[0]
	} else {
		n.alloc = e.define("alloc", "Int", iteChain(conds, as))
	}
	// ghosts: a state that lacks a ghost variable holds its (unknown) entry value
	keys := map[string]int{}
	for _, s := range states {
		for k := range s.ghost {
			keys[k]++
		}
	}
	var gk []string
	for k := range keys {
		gk = append(gk, k)
	}
	sort.Strings(gk)
	for _, k := range gk {
		ts := make([]Term, len(states))
		same := true
		for i, s := range states {
			t, ok := s.ghost[k]
			if !ok {
				if strings.HasPrefix(k, "seen:") {
					ts = nil
					break
				}
				t, ok = e.ghostEntry[k]
				if !ok {
					t = e.declare("ghost:"+k, e.ghostSort(k))
					e.ghostEntry[k] = t
				}
			}
			ts[i] = t
			if ts[i] != ts[0] {
				same = false
			}
		}
		if ts == nil {
			continue
		}
		if same {
			n.ghost[k] = ts[0]
		} else {
			n.ghost[k] = e.define("ghost", e.ghostSort(k), iteChain(conds, ts))
		}
	}
	// snapshots: a state without one uses the function-entry state
	snapKeys := map[string]bool{}
	for _, s := range states {
		for k := range s.snaps {
			snapKeys[k] = true
		}
	}
	for k := range snapKeys {
		var ss []*State
		for _, s := range states {
			if sn, ok := s.snaps[k]; ok {
				ss = append(ss, sn)
			} else {
				ss = append(ss, e.entryState)
			}
		}
		if n.snaps == nil {
			n.snaps = map[string]*State{}
		}
		n.snaps[k] = e.merge(conds, ss)
	}
	return n
}

func (e *enc) ghostSort(k string) string {
	if s, ok := e.famSort["ghost:"+k]; ok {
		return s
	}
	return "Int"
}

// havoc returns the state after an effect described by spec.
func (e *enc) havoc(st *State, sp *havocSpec) *State {
	frozen := st.clone()
	sp.allocBefore = st.alloc
	b := &baseNode{kind: baseHavoc, memo: map[string]Term{}, prev: frozen, spec: sp}
	n := &State{base: b, fam: map[string]Term{}, ghost: map[string]Term{}}
	for k, v := range st.ghost {
		n.ghost[k] = v
	}
	if len(st.snaps) > 0 {
		n.snaps = make(map[string]*State, len(st.snaps))
		for k, v := range st.snaps {
			n.snaps[k] = v
		}
	}
	n.alloc = e.declare("alloc", "Int")
	e.assume(fmt.Sprintf("(>= %s %s)", n.alloc, st.alloc))
	return n
}

// hasUnknownFrame reports whether the history of st contains a havoc whose
// frame is unknown (anything may have been modified).
func (e *enc) hasUnknownFrame(st *State, seen map[*baseNode]bool) (bool, string) {
	b := st.base
	for b != nil {
		if seen[b] {
			return false, ""
		}
		seen[b] = true
		switch b.kind {
		case baseEntry:
			return false, ""
		case baseHavoc:
			if b.spec.unknown {
				return true, b.spec.why
			}
			b = b.prev.base
		case baseMerge:
			for _, s := range b.states {
				if u, why := e.hasUnknownFrame(s, seen); u {
					return true, why
				}
			}
			return false, ""
		}
	}
	return false, ""
}

// ---------- well-formedness facts ----------

// wf returns constraints saying that every reference directly inside value v
// of type t was allocated before `alloc`.
func (e *enc) wf(v Term, t types.Type, alloc Term) []Term {
	switch u := t.Underlying().(type) {
	case *types.Pointer, *types.Map, *types.Chan, *types.Signature:
		return []Term{fmt.Sprintf("(<= 0 %s)", v), fmt.Sprintf("(< %s %s)", v, alloc)}
	case *types.Slice:
		return []Term{fmt.Sprintf("(<= 0 (sref %s))", v), fmt.Sprintf("(< (sref %s) %s)", v, alloc),
			fmt.Sprintf("(<= 0 (soff %s))", v), fmt.Sprintf("(<= 0 (slen %s))", v), fmt.Sprintf("(<= (slen %s) (scap %s))", v, v),
			fmt.Sprintf("(=> (= (sref %s) 0) (= (scap %s) 0))", v, v)}
	case *types.Interface:
		return []Term{fmt.Sprintf("(<= 0 (vref %s))", v), fmt.Sprintf("(< (vref %s) %s)", v, alloc),
			fmt.Sprintf("(=> ((_ is VSlice) %s) (and (<= 0 (lo %s)) (<= 0 (ll %s)) (<= (ll %s) (lc %s))))", v, v, v, v, v),
			fmt.Sprintf("(=> (not ((_ is VNil) %s)) (> (tid %s) 0))", v, v)}
	case *types.Struct:
		var out []Term
		for i := 0; i < u.NumFields(); i++ {
			out = append(out, e.wf(fmt.Sprintf("(%s %s)", e.S.fieldAcc(t, i), v), u.Field(i).Type(), alloc)...)
		}
		return out
	case *types.Basic:
		if u.Kind() == types.UnsafePointer {
			return []Term{fmt.Sprintf("(<= 0 %s)", v)}
		}
	}
	return nil
}

func (e *enc) assumeWF(v Term, t types.Type, alloc Term) {
	for _, c := range e.wf(v, t, alloc) {
		e.assume(c)
	}
}

func and(ts ...Term) Term {
	var out []Term
	for _, t := range ts {
		if t == "true" || t == "" {
			continue
		}
		if t == "false" {
			return "false"
		}
		out = append(out, t)
	}
	switch len(out) {
	case 0:
		return "true"
	case 1:
		return out[0]
	}
	return "(and " + strings.Join(out, " ") + ")"
}

func or(ts ...Term) Term {
	var out []Term
	for _, t := range ts {
		if t == "false" || t == "" {
			continue
		}
		if t == "true" {
			return "true"
		}
		out = append(out, t)
	}
	switch len(out) {
	case 0:
		return "false"
	case 1:
		return out[0]
	}
	return "(or " + strings.Join(out, " ") + ")"
}

func not(t Term) Term {
	switch t {
	case "true":
		return "false"
	case "false":
		return "true"
	}
	return "(not " + t + ")"
}

func implies(a, b Term) Term {
	if a == "true" {
		return b
	}
	if b == "true" {
		return "true"
	}
	return "(=> " + a + " " + b + ")"
}

// closure emits, once per (array version, allocation counter), the heap
// well-formedness axiom "every reference stored in an allocated object of
// this family was allocated": needed when contract expressions (rather than
// SSA loads, which get the fact individually) read references from the heap.
func (e *enc) closure(st *State, fam string, elemT types.Type, keySort string) {
	arr := e.get(st, fam)
	key := arr + "|" + st.alloc
	if e.closed == nil {
		e.closed = map[string]bool{}
	}
	if e.closed[key] {
		return
	}
	e.closed[key] = true
	if strings.Contains(e.defText[arr], "ite") || true {
		// patterns may not contain ite: use a constant equal to the array
		arr = e.pin("closed:"+fam, e.famSort[fam], arr)
	}
	var sel, binder string
	if keySort == "" {
		sel = fmt.Sprintf("(select %s r)", arr)
		binder = "((r Int))"
	} else {
		sel = fmt.Sprintf("(select (select %s r) i)", arr)
		binder = fmt.Sprintf("((r Int) (i %s))", keySort)
	}
	cs := e.wf(sel, elemT, st.alloc)
	if len(cs) == 0 {
		return
	}
	e.assume(fmt.Sprintf("(forall %s (! (=> (and (< 0 r) (< r %s)) %s) :pattern (%s)))", binder, st.alloc, and(cs...), sel))
}
