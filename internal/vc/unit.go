package vc

import (
	"fmt"
	"go/types"
	"sort"
	"strings"

	"golang.org/x/tools/go/ssa"
)

// extra fields of enc that belong to unit construction
type encExtra struct{}

func (e *enc) effCtx() *effCtx {
	if e.ec == nil {
		e.ec = &effCtx{P: e.P, root: e.rootFC, profile: e.profile, memo: map[*ssa.Function]*Effects{}, busy: map[*ssa.Function]bool{}}
	}
	return e.ec
}

// BuildUnit encodes one function under contract.
func BuildUnit(P *Program, key string, profile string, prop string) (*Unit, error) {
	fn := P.Funcs[key]
	if fn == nil {
		return nil, fmt.Errorf("no function %s in the loaded code", key)
	}
	fc := P.Contracts.Funcs[key]
	if fc == nil {
		return nil, fmt.Errorf("no contract for %s", key)
	}
	if fn.Blocks == nil {
		return nil, fmt.Errorf("%s has no body", key)
	}
	e := &enc{P: P, S: newSorts(), famSort: map[string]string{}, profile: profile, prop: prop, notes: map[string]bool{}, trusted: map[string]bool{},
		inlined: map[string]bool{}, callees: map[string]bool{}, unitName: key, names: map[string]int{}, globals: map[string]Term{},
		funcRefs: map[string]Term{}, fnByRef: map[string]interface{}{}, logicals: map[string]TV{}, closByRef: map[string]*closureVal{},
		inlineBusy: map[*ssa.Function]bool{}, rootFC: fc, ghostEntry: map[string]Term{}, ghostFns: map[string]bool{}, ghostFnStr: map[string]bool{}, ghostFnAny: map[string]bool{}, ghostTy: map[string]types.Type{}}
	e.safetyProps = fc.Safety
	for _, lc := range fc.Loops {
		for _, gf := range lc.GhostFns {
			rs := "Int"
			if gf.Ty == "string" {
				rs = "String"
				e.ghostFnStr[gf.Name] = true
			}
			if gf.Ty == "any" {
				rs = "Val"
				e.ghostFnAny[gf.Name] = true
			}
			e.S.extraDecls = append(e.S.extraDecls, fmt.Sprintf("(declare-fun %s (Int) %s)", q("gf:"+gf.Name), rs))
			e.ghostFns[gf.Name] = true
		}
	}
	for _, lc := range fc.Loops {
		for _, kf := range lc.KeyFns {
			e.ghostFns[kf.Name] = true // declared when the range is met (the key sort is the map's)
		}
	}
	e.inlineBusy[fn] = true
	entryB := &baseNode{kind: baseEntry, memo: map[string]Term{}}
	e.entryB = entryB
	alloc0 := q("alloc@0")
	e.emit(fmt.Sprintf("(declare-const %s Int)", alloc0))
	e.assume(fmt.Sprintf("(> %s 0)", alloc0))
	st := &State{base: entryB, fam: map[string]Term{}, alloc: alloc0, ghost: map[string]Term{}}

	for _, k := range sortedKeys(P.Contracts.Funcs) {
		if P.Contracts.Funcs[k].Logged {
			c := e.declare("ghost:n:"+k, "Int")
			e.famSort["ghost:n:"+k] = "Int"
			e.ghostEntry["n:"+k] = c
			st.ghost["n:"+k] = c
		}
	}
	for _, gs := range fc.GhostSets {
		e.famSort["ghost:gs:"+gs] = "(Array String Bool)"
		st.ghost["gs:"+gs] = "((as const (Array String Bool)) false)"
	}
	e.entryState = st.clone()
	x := e.newFx(fn, 0)
	x.top = true
	var args []Term
	for _, p := range fn.Params {
		t := q("p:" + p.Name())
		e.emit(fmt.Sprintf("(declare-const %s %s)", t, e.S.sortOf(p.Type())))
		e.assumeWF(t, p.Type(), alloc0)
		args = append(args, t)
	}
	var free []Term
	for _, fv := range fn.FreeVars {
		t := q("fv:" + fv.Name())
		e.emit(fmt.Sprintf("(declare-const %s %s)", t, e.S.sortOf(fv.Type())))
		e.assumeWF(t, fv.Type(), alloc0)
		free = append(free, t)
	}
	// parameters visible to the contract before run() (for requires)
	pre := &Env{e: e, vars: map[string]TV{}, st: st, old: st, allocOld: alloc0, pkg: e.pkgOf(fc), fx: x}
	for i, p := range fn.Params {
		pre.vars[p.Name()] = TV{args[i], p.Type()}
	}
	for i, fv := range fn.FreeVars {
		pre.vars[fv.Name()] = TV{free[i], fv.Type()}
		if o, renamed := aliasesOf(fn).rev[fv.Name()]; renamed {
			pre.vars[o] = TV{free[i], fv.Type()}
		}
	}
	for _, lv := range fc.Logicals {
		t, err := pre.resolveType(lv.Type)
		if err != nil {
			return nil, fmt.Errorf("%s: logical %s: %v", key, lv.Name, err)
		}
		c := q("logical:" + lv.Name)
		e.emit(fmt.Sprintf("(declare-const %s %s)", c, e.S.sortOf(t)))
		e.assumeWF(c, t, alloc0)
		e.logicals[lv.Name] = TV{c, t}
	}
	for _, ld := range fc.Lets {
		tv, err := pre.eval(ld.Expr)
		if err != nil {
			return nil, fmt.Errorf("%s: let %s: %v", key, ld.Name, err)
		}
		if t, ok := tv.Ty.(types.Type); ok {
			tv.T = e.define("let:"+ld.Name, e.S.sortOf(t), tv.T)
		}
		e.logicals[ld.Name] = tv
	}
	pre.hyp = true
	for _, c := range fc.Requires {
		if c.Profile != "" && c.Profile != profile {
			continue
		}
		tv, err := pre.eval(c.Expr)
		if err != nil {
			e.bindingError(key, c, err)
			continue
		}
		e.assume(tv.T)
	}
	wc := fc.WritesClause(profile)
	if wc == nil {
		wc = fc.Mod(profile)
	}
	if fc.TrustedFrame {
		wc = nil
		e.trusted["frame of "+key+" (its modifies clause) is assumed, not checked"] = true
	}
	if wc != nil {
		e.wfree = true
		e.writeProps = wc.Props
		for _, m := range wc.Exprs {
			tv, err := pre.eval(m)
			if err != nil {
				return nil, fmt.Errorf("%s: writes clause: %v", key, err)
			}
			e.writeRefs = append(e.writeRefs, refOf(tv)...)
		}
	}
	pre.hyp = false
	x.run(args, free, st, "true")

	// ----- exit -----
	if len(x.rets) > 0 {
		var conds []Term
		var states []*State
		for _, r := range x.rets {
			conds = append(conds, r.reach)
			states = append(states, r.st)
		}
		exit := e.merge(conds, states)
		exitReach := e.define("reach:exit", "Bool", or(conds...))
		res := fn.Signature.Results()
		post := x.envAt(exit, nil, nil, true)
		post.pkg = e.pkgOf(fc)
		for i := 0; i < res.Len(); i++ {
			ts := make([]Term, len(x.rets))
			for j, r := range x.rets {
				ts[j] = r.vals[i]
			}
			t := e.define("result", e.S.sortOf(res.At(i).Type()), iteChain(conds, ts))
			name := ""
			if i < len(fc.Returns) {
				name = fc.Returns[i]
			} else if res.At(i).Name() != "" {
				name = res.At(i).Name()
			}
			if name != "" {
				post.vars[name] = TV{t, res.At(i).Type()}
			}
			if res.Len() == 1 {
				post.vars["result"] = TV{t, res.At(i).Type()}
			}
		}
		// postconditions: one obligation per clause and per return site (the
		// merged exit state is kept for the frame obligations only)
		for k, c := range fc.Ensures {
			if c.Profile != "" && c.Profile != profile {
				continue
			}
			lbl := c.Label
			if lbl == "" {
				lbl = fmt.Sprint(k)
			}
			for ri, r := range x.rets {
				pr := x.envAt(r.st, r.blk, nil, true) // locals visible at the return site may be named
				pr.pkg = e.pkgOf(fc)
				for i := 0; i < res.Len(); i++ {
					name := ""
					if i < len(fc.Returns) {
						name = fc.Returns[i]
					} else if res.At(i).Name() != "" {
						name = res.At(i).Name()
					}
					if name != "" {
						pr.vars[name] = TV{r.vals[i], res.At(i).Type()}
					}
					if res.Len() == 1 {
						pr.vars["result"] = TV{r.vals[i], res.At(i).Type()}
					}
				}
				tv, err := pr.eval(c.Expr)
				if err != nil {
					e.bindingError(key, c, err)
					break
				}
				name := "post:" + lbl
				if len(x.rets) > 1 {
					name = fmt.Sprintf("post:%s@r%d", lbl, ri+1)
				}
				e.oblig("post", name, c.Props, r.reach, tv.T, fmt.Sprintf("%s:%d", shortFile(c.File), c.Line), c.Text)
			}
		}
		// covers: is each return site reachable under the preconditions and the
		// assumed contracts? (an unreachable one holds its postconditions vacuously;
		// reported in the evidence, never a failure: defensive code may be dead)
		if len(x.rets) > 1 {
			for ri, r := range x.rets {
				o := e.oblig("cover", fmt.Sprintf("cover:return@r%d", ri+1), nil, r.reach, "true", r.pos, "return site reachable")
				o.Expect = "sat"
			}
		}
		// frame
		if mc := fc.Mod(profile); mc != nil && !fc.TrustedFrame {
			if unk, why := e.hasUnknownFrame(exit, map[*baseNode]bool{}); unk {
				e.oblig("frame", "frame:unknown-effects", nil, exitReach, "false", "", "the function claims a frame but performs an effect with unknown frame: "+why)
			}
			fams := append([]string{}, e.famOrder...)
			for _, fam := range fams {
				g, err := x.frameGoal(post, fam)
				if err != nil {
					e.bindingErrorText(fn, "frame", mc.Text, err)
					break
				}
				if g == "true" {
					continue
				}
				e.oblig("frame", "frame:"+fam, nil, exitReach, g, "", "modifies "+mc.Text+" (family "+fam+")")
			}
		}
		// vacuity: the exit must be reachable under the preconditions and all assumptions
		o := e.oblig("vacuity", "vacuity:exit-reachable", nil, exitReach, "true", "", "preconditions, invariants and assumed contracts are consistent and some return is reachable")
		o.Expect = "sat"
	} else {
		o := e.oblig("vacuity", "vacuity:no-return", nil, "true", "false", "", "function never returns")
		_ = o
	}
	u := &Unit{Fn: key, Lines: e.lines, LineGroup: e.lineGroup, Obligs: e.obligs, e: e}
	for _, o := range u.Obligs {
		o.unit = u
	}
	for n := range e.notes {
		u.Notes = append(u.Notes, n)
	}
	sort.Strings(u.Notes)
	for n := range e.trusted {
		u.Trusted = append(u.Trusted, n)
	}
	sort.Strings(u.Trusted)
	for n := range e.inlined {
		u.Inlined = append(u.Inlined, n)
	}
	sort.Strings(u.Inlined)
	for n := range e.callees {
		u.Callees = append(u.Callees, n)
	}
	sort.Strings(u.Callees)
	return u, nil
}

func shortFile(f string) string {
	if i := strings.Index(f, "/repo/"); i >= 0 {
		return f[i+6:]
	}
	return f
}

// bindLogicals: at a call site, the callee's logical variables are
// instantiated by matching names with the caller's logical variables (same
// name) — otherwise they are fresh unconstrained constants.
func (x *fx) bindLogicals(fc *FuncContract, env *Env) {
	e := x.e
	for _, lv := range fc.Logicals {
		if tv, ok := e.logicals[lv.Name]; ok {
			env.vars[lv.Name] = tv
			continue
		}
		t, err := env.resolveType(lv.Type)
		if err != nil {
			continue
		}
		c := e.declare("logical:"+lv.Name, e.S.sortOf(t))
		env.vars[lv.Name] = TV{c, t}
	}
	// the callee's lets are defined from its own arguments in the pre-state
	for _, ld := range fc.Lets {
		tv, err := env.eval(ld.Expr)
		if err != nil {
			e.note("let " + ld.Name + " of " + fc.Key + ": " + err.Error())
			continue
		}
		env.vars[ld.Name] = tv
	}
}

var _ = types.Typ
