#!/bin/sh
# Builds the verifier from files on disk only (offline).
set -e
cd "$(dirname "$0")"
export GOFLAGS=-mod=mod GOPROXY=off GOSUMDB=off GOTOOLCHAIN=local
mkdir -p bin
if [ -d cmd/govc ]; then go build -o bin/govc ./cmd/govc; fi
