#!/bin/bash
# usage: confirm_seed.sh <prop id> <change n>   — confirms a seeded change in the scratch worktree /tmp/seedwork/wt-<id>
# (suite passes with the patch, demo fails with it, demo passes without it) and stores it under /verif/seeded/.
export GOFLAGS=-mod=mod GOPROXY=off GOSUMDB=off GOTOOLCHAIN=local
id=$1; n=$2
wt=/tmp/seedwork/wt-$id; out=/tmp/seedwork/out-$id/change$n
dest=/verif/seeded/$id-$n
cd $wt || exit 2
git checkout -q -- . ; git clean -fdq
git apply --check $out/patch.diff || { echo "$id-$n: patch does not apply"; exit 1; }
# locate the demo file(s) and where they go
demo=$(ls $out/*_test.go 2>/dev/null | head -1)
dir=$(grep -oE '\./[a-z/]+/?' $out/demo.txt | head -1 | sed 's|^\./||; s|/$||')
run=$(grep -oE 'go test [^`]*' $out/demo.txt | head -1)
[ -z "$demo" ] && { echo "$id-$n: no demo test"; exit 1; }
[ -z "$dir" ] && { echo "$id-$n: cannot find demo dir"; exit 1; }
cp $demo $wt/$dir/
echo "== $id-$n: demo on unchanged tree: $run"
( cd $wt && $run ) > /tmp/seedwork/confirm-$id-$n.clean.log 2>&1; clean=$?
rm -f $wt/$dir/$(basename $demo)
git apply $out/patch.diff
echo "== suite with patch"
go build ./... && go test -vet=off -count=1 ./... > /tmp/seedwork/confirm-$id-$n.suite.log 2>&1; suite=$?
cp $demo $wt/$dir/
( cd $wt && $run ) > /tmp/seedwork/confirm-$id-$n.patched.log 2>&1; patched=$?
rm -f $wt/$dir/$(basename $demo)
git checkout -q -- . ; git clean -fdq
echo "$id-$n: clean-demo=$clean suite-with-patch=$suite patched-demo=$patched"
if [ $clean -eq 0 ] && [ $suite -eq 0 ] && [ $patched -ne 0 ]; then
  mkdir -p $dest && cp $out/patch.diff $demo $out/demo.txt $out/notes.md $dest/ 2>/dev/null
  echo "$id-$n CONFIRMED -> $dest"
else
  echo "$id-$n NOT CONFIRMED"
fi
