#!/usr/bin/env python3
# Regenerates /verif/MANIFEST.json from the table below.
import json, subprocess
props = [json.loads(l) for l in open('/verif/properties.jsonl')]
TECH = "contract-based deductive verification: VCs generated from go/ssa of /repo by govc, discharged by z3/cvc5"
claimed = {
 "C04": dict(cat="proof", ref="DESIGN.md section 5/C04",
   text="Contracts on the real target/try/consider/Step (core/step.go): target's '@var' rule, try's state construction (node = target of the resulting bindings; pattern-less unguarded branch always taken with the given bindings; no guard call without a guard), consider's consumption rule (message branching consumes, bindings branching never, no message => nothing happens), first-unconditional-branch-wins, Step's four error returns and its consumption rule; every obligation (incl. loop invariants, call-site preconditions and generated no-panic conditions of the 7 functions in the cone) is discharged for all inputs. Ordered evaluation of *all* branches (beyond 'an unconditional first branch wins') needs a call log over an unbounded loop and is not claimed.",
   note="profile=pure for guards/actions (they do not modify what they are given); match.Match by assumed contract (listed in evidence.trusted_base); SSA->SMT encoding trusted; integers mathematical."),
 "C06": dict(cat="proof", ref="DESIGN.md section 5/C06",
   text="Frame conditions `modifies nothing` on Step, Walk, consider, try, target, FuncAction.Exec, AddEvents, Bindings.Copy/Extendm under the pure-action profile: every pre-existing object (state, bindings map, pendings backing array, spec, control, props, package variables) is extensionally unchanged at every return, and returned states are fresh objects with fresh bindings maps (Step#post:tofresh/from). Discharged for all inputs and all loop iteration counts. 'Equal inputs give equal results' is the paper corollary (no state written that a later call reads), not machine-checked.",
   note="assumes actions obey the documented Action contract (profile pure: an action does not modify the bindings it is given) - proved for nothing here, assumed for native actions; match.Match frame by assumed contract; SSA->SMT encoding trusted."),
 "C07": dict(cat="proof", ref="DESIGN.md section 5/C07",
   text="Generated no-panic obligations (nil dereference, nil-map write, index/slice bounds, type assertion, nil func/interface call, make size, explicit panic) for every instruction of FuncAction.Exec, Step, Walk, consider, try, target, AddEvents, Bindings.Copy/Extendm and everything inlined into them, under the `any` action profile (the action may return nil/partial executions, errors, nil bindings and may mutate the map it is given), for nil bindings, unknown nodes, nil control; plus totality posts (Step returns a stride or an error; Walk returns a Walked and no error; FuncAction.Exec never returns a nil execution). Three defects found by these obligations were repaired (known_findings.json: fixed). Compile/ParsePatterns and the ECMAScript interpreter are not yet under contract.",
   note="wfSpec (nodes and branches non-nil: what Compile establishes) is a precondition; Action implementations written by a host are assumed to return a non-nil, well-formed Execution; goja/encoding/json not verified; termination not covered."),
 "C18": dict(cat="proof", ref="DESIGN.md section 5/C18",
   text="FuncAction.Exec#post:perm with two loop invariants: whatever the wrapped function deleted, overwrote or returned, every '!' binding present before is present with its old value in any non-nil bindings that come back (all maps, all iteration orders); carried by contract through try (guards, via match's extension clause), consider and Step (#post:perm) to the next state's bindings. One case is a recorded known finding with a replayed witness: an action returning no bindings (`return null`) makes Step continue with empty bindings.",
   note="profile=pure (a native action/guard that deletes a '!' binding from its input map *in place* is outside the claim); Exp_PermanentBindings assumed true; match.Match's extension clause assumed (trusted_base)."),
}
claimed.update({
 "C01": dict(cat="other", ref="DESIGN.md section 5/C01",
   text="MIXED. Proved for all inputs (12 functions of the match package under contract, incl. the 86-block recursive match, mapcatMatch, arraycatMatch, inequal; all loop iteration counts and map iteration orders): every returned set is non-nil, extends the given bindings unchanged (ext), adds only names beginning with '?' (onlyVars), is a fresh map, the given bindings/pattern/message are not modified, no instruction can panic. BOUNDED (labelled so in the evidence, not counted as proved): 'the instantiated pattern is contained in the message' is checked by running the real Match on every (pattern, message, initial bindings) triple of a stated finite space against the executable spec function fits() written from the property text (7.4 million evaluations in quick). The containment relation is a recursive function of two heap graphs with an injective array matching; no contract the solvers can discharge expresses it (DESIGN.md 5/C01).",
   note="extern stubs for strings.HasPrefix/errors.New; SSA->SMT encoding trusted; termination of the recursion not proved; the bounded part covers depth<=2, keys {a,b}, arrays<=2 only."),
 "C02": dict(cat="exploration", ref="DESIGN.md section 5/C02",
   text="BOUNDED ONLY (never reported as proved): completeness is an existential over the backtracking search and needs the recursive containment relation; no contract within the verifier's reach expresses it. The contract is written as an executable specification - embeds(pattern, assignment, message) - and the real Match is compared with it exhaustively for every plain pattern (depth<=2, keys {a,b}, arrays<=2, variables ?x ?y at most once) against every message of the space (depth<=2, arrays as sets): the returned sets must be exactly the embeddings, so extra keys/elements never hide a match. 1.9 million pattern/message pairs in quick; arrays up to 3 in thorough.",
   note="exhaustive within the stated bound only; optional and inequality variables and pre-bound variables are outside this stand-in (C01's stand-in covers their soundness)."),
 "C03": dict(cat="proof", ref="DESIGN.md section 5/C03",
   text="`modifies nothing` on Match (pattern, message and given bindings extensionally unchanged at any depth), `modifies bindings` on the internal match (only the private copy), freshness of every returned map (fresh(bss[i])), write-target obligations (every store/map update/delete/in-place append in the 12 functions hits an object allocated during the call or the private copy) - all discharged. The relational part (same result for every map iteration order) cannot be expressed by per-function contracts; two concrete order dependences are recorded as known findings and replayed against the real code on every run.",
   note="order-independence and determinism under re-evaluation are NOT proved (two known findings show they do not hold in general); concurrency follows from write-freedom by the DRF argument (paper)."),
 "C12": dict(cat="proof", ref="DESIGN.md section 5/C12",
   text="Write-freedom: for Step, Walk, consider, try, target, FuncAction.Exec, AddEvents and all 12 match functions, every store / map update / delete / in-place append is proved to target an object allocated during the call or the machine's own bindings map (`writes` clauses; 1300+ obligations), and `modifies nothing` holds extensionally - so no object reachable from a compiled *Spec is ever written by processing. Access discipline: every use of UpdatableSpec.spec is an argument of sync/atomic.LoadPointer/StorePointer or the initialising store of a fresh struct. Data-race freedom for all schedules of concurrent walks of distinct states then follows from Go's memory model (read-only sharing) - a paper step, stated in the evidence.",
   note="profile=pure: native actions are assumed not to write anything but their bindings argument; goja program immutability and the ECMAScript interpreter are not yet under contract; the race detector is not part of this technique and is not used."),
})
claimed.update({
 "C05": dict(cat="proof", ref="DESIGN.md section 5/C05",
   text="Loop contract on the real Walk (core/step.go) against Step's contract, for all specs, states, message sequences, limits and breakpoint maps: at most Limit strides (variant Limit - i proves termination of the walk loop itself); the pending queue is always a suffix of the given one (same backing array, same end); with the ghost function kappa (number of messages consumed before stride j): kappa(0)=0, kappa(j+1)=kappa(j)+[stride j consumed], every consumed value is pendings[kappa(j)] - i.e. strictly in order, each at most once; on Limited/BreakpointReached, Remaining is exactly pendings[consumed:]; Done implies the last stride did not move and nothing remains; Limited implies exactly Limit strides; every return path has a stop reason. Not machine-checked: batch-split equivalence (a relation between two whole runs) - it follows from the per-iteration contract by induction on the stride sequence (paper argument in DESIGN.md); stride continuity (From of stride j+1 equals the state produced by stride j up to map contents) is not yet stated.",
   note="profile=pure; Step's clauses used here are proved in the same run; breakpoint predicates assumed not to modify anything; integers mathematical."),
})
na_reason = {
 "C11": "wall-clock promptness, goroutine counts and goja's interrupt polling cannot be expressed as function contracts; a contract on Exec would verify while the property is broken (DESIGN.md 5/C11)",
 "C17": "every clause is about interleavings of timer goroutines with requesters and about real time; sequential contracts on Add/Rem/cancel are trivially true (DESIGN.md 5/C17)",
}
m = {"version": 1, "setup_cmd": "./setup.sh",
 "hooks": {"guard": "verif",
   "enable": "contracts live in /repo/<pkg>/verif_contracts.go (`//go:build verif`, comment-only); govc loads /repo with -tags=verif",
   "baseline_off_cmd": "cd /repo && GOFLAGS=-mod=mod GOPROXY=off GOSUMDB=off go test -json -vet=off -count=1 -timeout 25m ./...",
   "source_commits": subprocess.run("git -C /repo log --format=%h --grep='^verif:'", shell=True, capture_output=True, text=True).stdout.split(),
   "add_only": True},
 "engines": [{"name": "govc", "path": "cmd/govc", "serves_properties": sorted(claimed), "kind_free_text": "contract-based deductive verifier for Go built for this task: go/ssa -> SMT-LIB verification conditions (heap model, loop invariants, modular calls, frames, generated safety obligations, ghost call logs), discharged by z3 5.1.0 / z3 4.8.12 / cvc5 1.0; recorded concrete witnesses are replayed against the real code with go test -overlay"}],
 "checks": [], "not_applicable": [],
 "notes": "See DESIGN.md. known_findings.json lists repaired defects (fixed) and recorded findings. Properties not yet under contract are listed under not_applicable with the reason 'contracts not completed'."}
for p in props:
    i = p["id"]
    if i in claimed:
        c = claimed[i]
        m["checks"].append({"property_id": i, "quick_cmd": f"bin/govc check -p {i} -tier quick", "thorough_cmd": f"bin/govc check -p {i} -tier thorough",
          "evidence_file": f"/verif/evidence/{i}.json", "replay_cmd_template": "bin/govc replay {path}", "engine": "govc",
          "level_claimed": {"category": c["cat"], "text": c["text"], "design_ref": c["ref"]}, "level_note": c["note"], "technique": TECH})
    else:
        m["not_applicable"].append({"property_id": i, "reason": na_reason.get(i, "contracts not completed yet in the time used so far (DESIGN.md section 8); not claimed on a weaker check or by another technique")})
json.dump(m, open('/verif/MANIFEST.json', 'w'), indent=1)
print("claimed:", sorted(claimed))
