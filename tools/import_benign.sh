#!/bin/bash
# usage: import_benign.sh <agent id> <prop>  — takes /tmp/benignwork4/out-<id>/patch.diff into /verif/benign/<prop>-a-<id>/ after
# checking in a scratch worktree of /repo's HEAD that it applies, builds and passes the unedited suite.
export GOFLAGS=-mod=mod GOPROXY=off GOSUMDB=off GOTOOLCHAIN=local
id=$1; prop=$2; src=/tmp/benignwork4/out-$id; dest=/verif/benign/$prop-a-$id
[ -f $src/patch.diff ] || { echo "$id: no patch"; exit 1; }
S=/tmp/benignchk-$id; rm -rf $S; git -C /repo worktree add -q --detach $S HEAD || exit 1
if git -C $S apply $src/patch.diff 2>/dev/null && (cd $S && go build ./... && go test -vet=off -count=1 ./... >/dev/null 2>&1); then
  mkdir -p $dest; cp $src/patch.diff $src/notes.md $dest/ 2>/dev/null; echo "$id: imported as $dest ($(grep -c '^[+-][^+-]' $src/patch.diff) changed lines)"
else echo "$id: patch does not apply/build/pass"; fi
git -C /repo worktree remove --force $S; rm -rf $S
