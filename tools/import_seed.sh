#!/bin/bash
# usage: import_seed.sh <prop id> <n>  — takes a sub-agent's deliverables from /tmp/seedwork8/out-<id>/ into /verif/seeded/<id>-<n>/,
# writes meta.json, and confirms it against /repo's HEAD (tools/reconfirm_seeds.sh); removes it again if it is not confirmed.
id=$1; n=$2; src=/tmp/seedwork8/out-$id; dest=/verif/seeded/$id-$n
[ -f $src/patch.diff ] || { echo "$id: no patch.diff"; exit 1; }
mkdir -p $dest; cp $src/patch.diff $src/zz_seed_demo_test.go $src/demo.txt $src/notes.md $dest/ 2>/dev/null
python3 - "$dest" "$id-$n" <<'PY'
import os, re, json, sys
d,name=sys.argv[1],sys.argv[2]; prop=name.split('-')[0]
notes=open(d+'/notes.md').read()
secs=re.split(r'^## ', notes, flags=re.M)
what=needs=''
title=''
for l in notes.splitlines():
    if l.startswith('# '): title=l.lstrip('# ').strip(); break
for sec in secs[1:]:
    h,_,body=sec.partition('\n'); hl=h.lower()
    if hl.startswith('what the change is') or hl.strip()=='what': what=body.strip()
    if 'needed' in hl and 'manifest' in hl: needs=body.strip()
demo=open(d+'/demo.txt').read()
m=re.search(r'go test [^`\n]*', demo)
files=[l[6:].strip() for l in open(d+'/patch.diff') if l.startswith('+++ b/')]
dm=re.search(r'\./([a-z/]+)', m.group(0) if m else '')
meta={"id":name,"property":prop,"title":title or what[:80],"round":2,"files_changed":files,"what_it_changes":what[:1500],"needs_to_manifest":needs[:2500],
 "demonstration":{"test_file":[f for f in os.listdir(d) if f.endswith('_test.go')],"package_dir":dm.group(1).rstrip('/') if dm else None,"command":m.group(0).strip() if m else None},
 "confirmed_by_me":{"how":"tools/reconfirm_seeds.sh in a scratch worktree of /repo's HEAD (removed afterwards): (1) demonstration on the unchanged tree, (2) go build ./... && go test -vet=off -count=1 ./... with the patch applied, (3) demonstration with the patch applied","result":"(1) passes, (2) the whole suite passes, (3) the demonstration fails","date":"2026-10-03"},
 "source":"fresh sub-agent given only the property text and its own scratch worktree (contract comment files removed from it)"}
json.dump(meta,open(d+'/meta.json','w'),indent=1)
PY
out=$(/verif/tools/reconfirm_seeds.sh $dest/ 2>&1 | tail -1); echo "$out"
echo "$out" | grep -q CONFIRMED || { echo "$id-$n: not confirmed, removed"; rm -rf $dest; }
