#!/bin/bash
# Re-confirms every seeded change against /repo's current HEAD in scratch worktrees (removed afterwards):
# demo passes without the patch, the patch applies and builds, the unedited suite passes with it, the demo fails with it.
export GOFLAGS=-mod=mod GOPROXY=off GOSUMDB=off GOTOOLCHAIN=local
one() {
  d=$(realpath ${1%/}); name=$(basename $d); S=/tmp/reconf-$name
  rm -rf $S; git -C /repo worktree add -q --detach $S HEAD || { echo "$name: worktree failed"; return; }
  dir=$(jq -r .demonstration.package_dir $d/meta.json); cmd=$(jq -r .demonstration.command $d/meta.json)
  cp $d/*_test.go $S/$dir/
  ( cd $S && $cmd ) > $S.clean.log 2>&1; clean=$?
  rm -f $S/$dir/zz_seed_demo*_test.go
  if ! git -C $S apply --3way $d/patch.diff >/dev/null 2>&1; then echo "$name: PATCH-DOES-NOT-APPLY clean-demo=$clean"; else
    git -C $S reset -q
    ( cd $S && go build ./... && go test -vet=off -count=1 ./... ) > $S.suite.log 2>&1; suite=$?
    cp $d/*_test.go $S/$dir/
    ( cd $S && $cmd ) > $S.patched.log 2>&1; patched=$?
    verdict=STALE; [ $clean -eq 0 ] && [ $suite -eq 0 ] && [ $patched -ne 0 ] && verdict=CONFIRMED
    echo "$name: $verdict clean-demo=$clean suite-with-patch=$suite patched-demo=$patched"
  fi
  git -C /repo worktree remove --force $S 2>/dev/null; rm -rf $S $S.*.log
}
export -f one
seeds="$@"; [ -z "$seeds" ] && seeds=$(ls -d /verif/seeded/C*/)
echo $seeds | tr ' ' '\n' | xargs -P ${JOBS:-4} -I{} bash -c 'one {}'
