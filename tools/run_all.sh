#!/bin/bash
# Runs every claimed check (quick tier by default) and prints one summary line each.
tier=${1:-quick}
cd /verif
for p in $(jq -r '.checks[].property_id' MANIFEST.json); do
  start=$(date +%s)
  out=$(./bin/govc check -p $p -tier $tier 2>&1); rc=$?
  end=$(date +%s)
  echo "== $p rc=$rc $((end-start))s :: $(echo "$out" | grep -E 'functions,|bounded' | tail -1)"
  echo "$out" | grep -E "VIOLATION|KNOWN-FINDING|undischarged|UNDECIDED" | cut -c1-220
done
