#!/bin/bash
# usage: run_seeds.sh [seed dirs...]
# For each seeded change (/verif/seeded/<id>-<n>/patch.diff): apply it to a scratch worktree of /repo's HEAD (never to /repo
# itself), run the claimed quick checks whose cone contains the touched packages against that worktree from a scratch copy of
# /verif, print which checks report a violation, remove the scratch copies.
set -u
seeds="$@"; [ -z "$seeds" ] && seeds=$(ls -d /verif/seeded/*/)
claimed=$(python3 -c "import json;print(' '.join(c['property_id'] for c in json.load(open('/verif/MANIFEST.json'))['checks']))")
one() {
  d=${1%/}; name=$(basename $d); S=/tmp/seedrun-$name
  rm -rf $S; mkdir -p $S
  git -C /repo worktree add -q --detach $S/repo HEAD || return
  rsync -a --exclude .git --exclude out --exclude evidence /verif/ $S/verif/
  if ! git -C $S/repo apply --3way $d/patch.diff >/dev/null 2>&1; then echo "$name: patch does not apply to the current tree"; else
    git -C $S/repo reset -q
    files=$(grep '^+++ b/' $d/patch.diff | sed 's|+++ b/||')
    want=""
    for f in $files; do case $f in
      match/*) want="$want C01 C02 C03 C09 C12 C06";;
      core/*) want="$want C04 C05 C06 C07 C08 C09 C12 C13 C18";;
      interpreters/*) want="$want C06 C07 C08 C10 C12";;
      sio/*) want="$want C14 C15 C13";;
      tools/expect/*) want="$want C19";;
      tools/*) want="$want C20";;
      cmd/mcrew/*) want="$want C16 C14";;
      crew/*) want="$want C16";;
    esac; done
    caught=""
    own=${name%%-*}
    if [ -z "${FULL:-}" ]; then want="$own"; fi
    for p in $own $(echo $want | tr ' ' '\n' | sort -u | grep -v "^$own\$"); do
      echo " $claimed " | grep -q " $p " || continue
      out=$(cd $S/verif && bin/govc check -p $p -repo $S/repo -verif $S/verif 2>&1); rc=$?
      if [ $rc -ne 0 ]; then ob=$(echo "$out" | grep -m8 -o 'obligation=[^ ]*' | sed 's/obligation=//' | tr '\n' ' '); caught="$caught $p[$ob]"; fi
    done
    echo "$name: caught by:${caught:- NONE}"
  fi
  git -C /repo worktree remove --force $S/repo 2>/dev/null; rm -rf $S
}
export -f one; export claimed
echo $seeds | tr ' ' '\n' | xargs -P ${JOBS:-3} -I{} bash -c 'one {}'
