#!/bin/bash
# usage: run_seeds.sh [seed dirs...]
# Applies each seeded change (/verif/seeded/<id>-<n>/patch.diff) to a scratch worktree of /repo's HEAD (never to /repo itself),
# runs every claimed quick check against that worktree from a scratch copy of /verif, and prints which checks report a violation.
set -u
S=/tmp/seedrun
rm -rf $S/verif; mkdir -p $S
git -C /repo worktree remove --force $S/repo 2>/dev/null; rm -rf $S/repo
git -C /repo worktree add -q --detach $S/repo HEAD || exit 2
rsync -a --exclude .git --exclude out --exclude evidence /verif/ $S/verif/
seeds="$@"; [ -z "$seeds" ] && seeds=$(ls -d /verif/seeded/*/)
checks=$(python3 -c "import json;print(' '.join(c['property_id'] for c in json.load(open('/verif/MANIFEST.json'))['checks']))")
for d in $seeds; do
  d=${d%/}; name=$(basename $d)
  if ! git -C $S/repo apply --3way $d/patch.diff >/dev/null 2>&1; then git -C $S/repo reset -q --hard; git -C $S/repo clean -fdq; echo "$name: patch does not apply to the current tree"; continue; fi
  git -C $S/repo reset -q
  caught=""
  for p in $checks; do
    out=$(cd $S/verif && bin/govc check -p $p -repo $S/repo -verif $S/verif 2>&1); rc=$?
    if [ $rc -ne 0 ]; then ob=$(echo "$out" | grep -m2 -o 'obligation=[^ ]*' | sed 's/obligation=//' | tr '\n' ' '); caught="$caught $p[$ob]"; fi
  done
  git -C $S/repo checkout -q -- . ; git -C $S/repo clean -fdq
  echo "$name: caught by:${caught:- NONE}"
done
git -C /repo worktree remove --force $S/repo; rm -rf $S/verif
