#!/bin/bash
# usage: run_seeds.sh [seed dirs...]   — applies each seeded change to /repo, runs every claimed quick check,
# prints which checks report a violation, and restores /repo. /repo must have no uncommitted changes.
cd /verif
seeds="$@"; [ -z "$seeds" ] && seeds=$(ls -d /verif/seeded/*/)
checks=$(python3 -c "import json;print(' '.join(c['property_id'] for c in json.load(open('/verif/MANIFEST.json'))['checks']))")
if [ -n "$(git -C /repo status --porcelain)" ]; then echo "/repo is not clean"; exit 2; fi
for d in $seeds; do
  d=${d%/}; name=$(basename $d)
  if ! git -C /repo apply --3way $d/patch.diff >/dev/null 2>&1; then git -C /repo checkout -q -- . ; git -C /repo reset -q --hard; echo "$name: patch does not apply to the current tree"; continue; fi
  git -C /repo reset -q   # unstage what --3way staged
  caught=""
  for p in $checks; do
    out=$(bin/govc check -p $p 2>&1); rc=$?
    if [ $rc -ne 0 ]; then ob=$(echo "$out" | grep -m2 -o 'obligation=[^ ]*' | tr '\n' ' '); caught="$caught $p[$ob]"; fi
  done
  git -C /repo checkout -q -- . ; git -C /repo clean -fdq
  echo "$name: caught by:${caught:- NONE}"
done
