#!/bin/bash
# usage: try_seed.sh <seed dir> <property> — like run_seeds.sh for one seed and one property, but the scratch worktree also
# receives /repo's uncommitted contract files (verif_contracts.go), so a contract can be tried before it is committed.
set -u
d=$(realpath ${1%/}); p=$2; name=$(basename $d); S=/tmp/tryseed-$name-$p
rm -rf $S; mkdir -p $S
git -C /repo worktree add -q --detach $S/repo HEAD || exit 2
(cd /repo && for f in $(git ls-files -m -o --exclude-standard | grep verif_contracts.go); do cp $f $S/repo/$f; done)
rsync -a --exclude .git --exclude out --exclude evidence /verif/ $S/verif/
if git -C $S/repo apply $d/patch.diff; then
  (cd $S/verif && ${GOVC:-bin/govc} check -p $p -repo $S/repo -verif $S/verif 2>&1 | grep -E "VIOLATION|KNOWN|obligations" | cut -c1-260)
fi
git -C /repo worktree remove --force $S/repo 2>/dev/null; rm -rf $S
