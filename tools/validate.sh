#!/bin/bash
# Validates MANIFEST.json and every evidence file against the schemas, and that each evidence level equals the level claimed.
python3-vt - <<'PY'
import json, jsonschema, glob, sys
m = json.load(open('/verif/MANIFEST.json'))
jsonschema.validate(m, json.load(open('/root/.vp/MANIFEST.schema.json')))
s = json.load(open('/root/.vp/EVIDENCE.schema.json'))
bad = 0
for c in m['checks']:
    ev = json.load(open(c['evidence_file']))
    jsonschema.validate(ev, s)
    if ev['level'] != c['level_claimed']['category']:
        print('LEVEL MISMATCH', c['property_id'], ev['level'], c['level_claimed']['category']); bad = 1
    if ev.get('violations'):
        print('EVIDENCE HAS VIOLATIONS', c['property_id']); bad = 1
print('validate:', 'FAILED' if bad else 'ok')
sys.exit(bad)
PY
