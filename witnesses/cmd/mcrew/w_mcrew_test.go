package main

import (
	"context"
	"encoding/json"
	"os"
	"path/filepath"
	"testing"

	"github.com/Comcast/sheens/match"
)

// Witness for cmd/mcrew.(*Service).AddMachine#post:rollback and
// RemMachine#post:rollback (C16): with a failing store (closed database) an
// add or remove must leave the in-memory crew as it was.
func TestWitnessWriteFailureLeavesMemory(t *testing.T) {
	ctx, cancel := context.WithCancel(context.Background())
	defer cancel()
	dir, err := os.MkdirTemp("", "verif-mcrew")
	if err != nil {
		t.Fatal(err)
	}
	defer os.RemoveAll(dir)
	s, err := NewService(ctx, "../../specs", filepath.Join(dir, "w.db"), "lib")
	if err != nil {
		t.Fatal(err)
	}
	if err := s.AddMachine(ctx, "double", "m0", "start", nil); err != nil {
		t.Fatal(err)
	}
	s.store.Close(ctx) // from now on every write fails
	if err := s.AddMachine(ctx, "double", "m1", "start", nil); err == nil {
		t.Fatal("write to a closed store succeeded")
	}
	if _, have := s.crew.Machines["m1"]; have {
		t.Fatal("AddMachine failed to persist m1 but m1 is in the in-memory crew")
	}
	if err := s.RemMachine(ctx, "m0"); err == nil {
		t.Fatal("write to a closed store succeeded")
	}
	if _, have := s.crew.Machines["m0"]; !have {
		t.Fatal("RemMachine failed to persist the removal of m0 but m0 is gone from the in-memory crew")
	}
}

// Witness for cmd/mcrew.(*Service).Process#post:nowrite (C16): when the write
// of the new machine states fails, Process must leave every machine's
// in-memory state as it was.
func TestWitnessProcessWriteFailureLeavesMemory(t *testing.T) {
	ctx, cancel := context.WithCancel(context.Background())
	defer cancel()
	dir, err := os.MkdirTemp("", "verif-mcrew")
	if err != nil {
		t.Fatal(err)
	}
	defer os.RemoveAll(dir)
	s, err := NewService(ctx, "../../specs", filepath.Join(dir, "w.db"), "lib")
	if err != nil {
		t.Fatal(err)
	}
	if err := s.AddMachine(ctx, "double", "m0", "start", nil); err != nil {
		t.Fatal(err)
	}
	before := s.crew.Machines["m0"].State
	s.store.Close(ctx) // from now on every write fails
	msg := map[string]interface{}{"to": "m0", "double": "3"}
	walkeds, err := s.Process(ctx, msg, nil)
	if err == nil {
		t.Fatal("write to a closed store succeeded")
	}
	if w := walkeds["m0"]; w == nil || w.To() == nil {
		t.Fatal("the machine did not move: the witness needs a transition")
	}
	if after := s.crew.Machines["m0"].State; after != before {
		t.Fatalf("Process failed to persist the new state of m0 but replaced the in-memory state (%s -> %s)", before.NodeName, after.NodeName)
	}
}

// Witness for cmd/mcrew.MachineState#jsonform:* (C09): a stored record with
// empty values keeps its node and bs keys, and the bindings come back non-nil.
func TestWitnessMachineStateJSONEmptyValues(t *testing.T) {
	ms := &MachineState{NodeName: "", Bs: match.NewBindings()}
	js, err := json.Marshal(ms)
	if err != nil {
		t.Fatal(err)
	}
	var keys map[string]json.RawMessage
	if err := json.Unmarshal(js, &keys); err != nil {
		t.Fatal(err)
	}
	for _, k := range []string{"node", "bs"} {
		if _, have := keys[k]; !have {
			t.Errorf("key %q is not written for an empty value: %s", k, js)
		}
	}
	var back MachineState
	if err := json.Unmarshal(js, &back); err != nil {
		t.Fatal(err)
	}
	if back.Bs == nil {
		t.Errorf("empty bindings come back as nil bindings: %s", js)
	}
}
