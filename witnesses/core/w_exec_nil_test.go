package core

import (
	"context"
	"errors"
	"testing"

	"github.com/Comcast/sheens/match"
)

// Witness for core.(*FuncAction).Exec#nil-deref:exe / #nilmap-write:exe.Bs
// (C07, C18): with a permanent binding present, an action that fails without
// an execution, or a guard that returns nil bindings, must not crash.
func TestWitnessExecNilExecution(t *testing.T) {
	a := &FuncAction{F: func(ctx context.Context, bs match.Bindings, props StepProps) (*Execution, error) {
		return nil, errors.New("boom")
	}}
	exe, err := a.Exec(context.Background(), match.Bindings{"k!": 1.0}, nil)
	if err == nil || exe == nil {
		t.Fatalf("want an execution and the error, got %v %v", exe, err)
	}
}

func TestWitnessExecNilBindings(t *testing.T) {
	a := &FuncAction{F: func(ctx context.Context, bs match.Bindings, props StepProps) (*Execution, error) {
		return NewExecution(nil), nil
	}}
	exe, err := a.Exec(context.Background(), match.Bindings{"k!": 1.0}, nil)
	if err != nil || exe == nil || exe.Bs != nil {
		t.Fatalf("want an execution with nil bindings, got %v %v", exe, err)
	}
}
