package core

import (
	"encoding/json"
	"testing"

	"github.com/Comcast/sheens/match"
)

// Witness for core.State#jsonform:* (C09): the model of a failed
// "always-written" obligation is a field value of size 0. A state with empty
// values is written out and read back; every listed key must be present and
// the bindings must come back as an empty, non-nil map.
func TestWitnessStateJSONEmptyValues(t *testing.T) {
	st := &State{NodeName: "", Bs: match.NewBindings()}
	js, err := json.Marshal(st)
	if err != nil {
		t.Fatal(err)
	}
	var keys map[string]json.RawMessage
	if err := json.Unmarshal(js, &keys); err != nil {
		t.Fatal(err)
	}
	for _, k := range []string{"node", "bs"} {
		if _, have := keys[k]; !have {
			t.Errorf("key %q is not written for an empty value: %s", k, js)
		}
	}
	if len(keys) != 2 {
		t.Errorf("keys other than node and bs are written: %s", js)
	}
	var back State
	if err := json.Unmarshal(js, &back); err != nil {
		t.Fatal(err)
	}
	if back.Bs == nil {
		t.Errorf("empty bindings come back as nil bindings: %s", js)
	}
	st = &State{NodeName: "n", Bs: match.Bindings{"k": 1.0}}
	js, _ = json.Marshal(st)
	back = State{}
	if err := json.Unmarshal(js, &back); err != nil || back.NodeName != "n" || back.Bs["k"] != 1.0 {
		t.Errorf("state does not survive the round trip: %s -> %#v (%v)", js, back, err)
	}
}
