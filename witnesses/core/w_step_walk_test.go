package core

import (
	"context"
	"encoding/json"
	"errors"
	"reflect"
	"testing"

	"github.com/Comcast/sheens/match"
)

func failingSpec(t *testing.T) *Spec {
	s := &Spec{
		Nodes: map[string]*Node{
			"start": {
				Action: &FuncAction{F: func(ctx context.Context, bs match.Bindings, props StepProps) (*Execution, error) {
					return nil, errors.New("boom")
				}},
				Branches: &Branches{Branches: []*Branch{{Target: "start"}}},
			},
		},
	}
	if err := s.Compile(context.Background(), nil, true); err != nil {
		t.Fatal(err)
	}
	return s
}

// Witness for core.(*Spec).Walk#nil-deref:c (C07): Walk without control settings.
func TestWitnessWalkNilControl(t *testing.T) {
	s := failingSpec(t)
	if _, err := s.Walk(context.Background(), &State{NodeName: "start", Bs: match.NewBindings()}, nil, nil, nil); err != nil {
		t.Fatal(err)
	}
}

// Witness for core.(*Spec).Step#nilmap-write:bs@match.(Bindings).Extend (C07):
// an action fails at a state that has no bindings.
func TestWitnessStepNilBindingsActionError(t *testing.T) {
	s := failingSpec(t)
	w, err := s.Walk(context.Background(), &State{NodeName: "start"}, nil, DefaultControl, nil)
	if err != nil {
		t.Fatal(err)
	}
	if to := w.To(); to == nil || to.NodeName != "error" {
		t.Fatalf("want the error node, got %v", to)
	}
}

// Witness for core.(*Spec).Walk#pre@match.(Bindings).Extendm (C07): Step
// returns an error (unknown node) for a state without bindings.
func TestWitnessWalkNilBindingsUnknownNode(t *testing.T) {
	s := failingSpec(t)
	w, err := s.Walk(context.Background(), &State{NodeName: "nowhere"}, nil, DefaultControl, nil)
	if err != nil {
		t.Fatal(err)
	}
	if to := w.To(); to == nil || to.NodeName != "error" {
		t.Fatalf("want the error node, got %v", to)
	}
}

// Witness for core.(*Spec).Step#frame / core.(*Spec).Walk#frame (C06): the
// error paths must not write into the caller's bindings.
func TestWitnessErrorPathLeavesCallerBindings(t *testing.T) {
	s := failingSpec(t)
	bs := match.Bindings{"k": 1.0}
	st := &State{NodeName: "start", Bs: bs}
	if _, err := s.Walk(context.Background(), st, nil, DefaultControl, nil); err != nil {
		t.Fatal(err)
	}
	if !reflect.DeepEqual(bs, match.Bindings{"k": 1.0}) {
		t.Fatalf("caller's bindings were modified: %v", bs)
	}
	st2 := &State{NodeName: "nowhere", Bs: match.Bindings{"k": 1.0}}
	if _, err := s.Walk(context.Background(), st2, nil, DefaultControl, nil); err != nil {
		t.Fatal(err)
	}
	if !reflect.DeepEqual(st2.Bs, match.Bindings{"k": 1.0}) {
		t.Fatalf("caller's bindings were modified: %v", st2.Bs)
	}
}

// Witness for core.(*Spec).Compile#nil-deref:n.Branches.Branches[...] (C07):
// a JSON document with a null branch must yield an error, not a crash.
func TestWitnessCompileNilBranch(t *testing.T) {
	s := &Spec{Nodes: map[string]*Node{"start": {Branches: &Branches{Branches: []*Branch{nil}}}}}
	defer func() {
		if r := recover(); r != nil {
			t.Fatalf("Compile crashed: %v", r)
		}
	}()
	if err := s.Compile(context.Background(), nil, true); err == nil {
		// a nil branch is either rejected or tolerated, but never a crash
		if _, err := s.Walk(context.Background(), &State{NodeName: "start", Bs: match.NewBindings()}, nil, nil, nil); err != nil {
			t.Fatal(err)
		}
	}
}

// Known finding (C13): under patternSyntax "json" Compile parses every
// pattern twice (ParsePatterns, then again in its own loop), so a pattern
// whose JSON text denotes a bare string does not compile.
func TestWitnessJSONPatternParsedTwice(t *testing.T) {
	s := &Spec{
		PatternSyntax: "json",
		Nodes: map[string]*Node{
			"start": {Branches: &Branches{Type: "message", Branches: []*Branch{{Pattern: `"abc"`, Target: "start"}}}},
		},
	}
	if err := s.Compile(context.Background(), nil, true); err != nil {
		t.Fatalf("a bare-string pattern given as JSON text does not compile: %v", err)
	}
}

// Witness for core.(*Spec).Step/Walk#pre@match.(Bindings).Extendm:plain (C09):
// the error node's "lastBindings" is stored with the named type
// match.Bindings, which the matcher does not treat as a map until the state
// has been through JSON.
func TestWitnessLastBindingsIsPlainData(t *testing.T) {
	s := failingSpec(t)
	w, err := s.Walk(context.Background(), &State{NodeName: "start", Bs: match.Bindings{"a": 1.0}}, nil, DefaultControl, nil)
	if err != nil {
		t.Fatal(err)
	}
	to := w.To()
	if to == nil || to.NodeName != "error" {
		t.Fatalf("want the error node, got %v", to)
	}
	pattern := map[string]interface{}{"lastBindings": map[string]interface{}{"a": "?a"}}
	inMemory, err := match.Match(pattern, map[string]interface{}(to.Bs), match.NewBindings())
	if err != nil {
		t.Fatalf("in memory: %v", err)
	}
	js, _ := json.Marshal(to.Bs)
	var reloaded map[string]interface{}
	json.Unmarshal(js, &reloaded)
	afterReload, err := match.Match(pattern, reloaded, match.NewBindings())
	if err != nil {
		t.Fatalf("reloaded: %v", err)
	}
	if len(inMemory) != len(afterReload) {
		t.Fatalf("bindings branching on lastBindings: %d matches in memory, %d after a JSON round trip", len(inMemory), len(afterReload))
	}
}

// Witness for core.(*Spec).Walk#makeslice-len (C07, "all control settings"):
// a negative step limit.
func TestWitnessWalkNegativeLimit(t *testing.T) {
	s := failingSpec(t)
	defer func() {
		if r := recover(); r != nil {
			t.Fatalf("Walk crashed: %v", r)
		}
	}()
	w, err := s.Walk(context.Background(), &State{NodeName: "start", Bs: match.NewBindings()}, []interface{}{"m"}, &Control{Limit: -1}, nil)
	if err != nil {
		t.Fatal(err)
	}
	if len(w.Strides) != 0 || w.StoppedBecause != Limited || len(w.Remaining) != 1 {
		t.Fatalf("a walk with a negative limit took %d steps, stopped because %v, %d remaining", len(w.Strides), w.StoppedBecause, len(w.Remaining))
	}
}
