package ecmascript

import (
	"os"
	"os/exec"
	"testing"
)

// Witness for C07 (returning a non-object never crashes the host): an action
// that returns a self-containing array. A stack overflow is fatal (no recover
// can catch it), so the script is run in a child process.
func TestWitnessReturnCyclicArray(t *testing.T) {
	if os.Getenv("VERIF_WITNESS_CHILD") == "1" {
		to := walkScript(t, `var a = []; a[0] = a; return a;`)
		if to == nil || to.NodeName != "error" {
			t.Fatalf("the failure was not surfaced as a transition to the error node: %v", to)
		}
		return
	}
	cmd := exec.Command(os.Args[0], "-test.run", "^TestWitnessReturnCyclicArray$")
	cmd.Env = append(os.Environ(), "VERIF_WITNESS_CHILD=1")
	out, err := cmd.CombinedOutput()
	if err != nil {
		if len(out) > 600 {
			out = out[:600]
		}
		t.Fatalf("the host process died or failed: %v\n%s", err, out)
	}
}
