package ecmascript

import (
	"context"
	"testing"

	"github.com/Comcast/sheens/core"
	"github.com/Comcast/sheens/match"
)

// Witness for C07 (a script never crashes the host): the value a script
// returns, or hands to _.out, is exported to Go after the script has run;
// exporting an object calls its getters, which are script code and may throw.
func walkScript(t *testing.T, src string) *core.State {
	ctx := context.Background()
	spec := &core.Spec{
		Name: "w",
		Nodes: map[string]*core.Node{
			"start": {
				Branches: &core.Branches{Type: "message", Branches: []*core.Branch{{Pattern: map[string]interface{}{"go": "?x"}, Target: "do"}}},
			},
			"do": {
				ActionSource: &core.ActionSource{Interpreter: "ecmascript", Source: src},
				Branches:     &core.Branches{Type: "bindings", Branches: []*core.Branch{{Target: "start"}}},
			},
		},
	}
	interps := core.InterpretersMap{"ecmascript": NewInterpreter()}
	if err := spec.Compile(ctx, interps, true); err != nil {
		t.Fatal(err)
	}
	defer func() {
		if r := recover(); r != nil {
			t.Fatalf("processing crashed the host: %v", r)
		}
	}()
	st := &core.State{NodeName: "start", Bs: match.NewBindings()}
	walked, err := spec.Walk(ctx, st, []interface{}{map[string]interface{}{"go": 1.0}}, nil, nil)
	if err != nil {
		t.Fatal(err)
	}
	return walked.To()
}

func TestWitnessReturnThrowingGetter(t *testing.T) {
	to := walkScript(t, `var o = {}; Object.defineProperty(o, "x", {enumerable: true, get: function() { throw "boom"; }}); return o;`)
	if to == nil || to.NodeName != "error" {
		t.Fatalf("the failure was not surfaced as a transition to the error node: %v", to)
	}
}

func TestWitnessEmitThrowingGetter(t *testing.T) {
	to := walkScript(t, `var o = {}; Object.defineProperty(o, "x", {enumerable: true, get: function() { throw "boom"; }}); _.out(o); return _.bindings;`)
	if to == nil || to.NodeName != "error" {
		t.Fatalf("the failure was not surfaced as a transition to the error node: %v", to)
	}
}
