package ecmascript

import (
	"context"
	"testing"

	"github.com/Comcast/sheens/core"
	"github.com/Comcast/sheens/match"
)

// Witness for the known finding core.(*Spec).Step#post:perm-null (C18): an
// ECMAScript action that returns null makes Step continue with empty
// bindings, so permanent ("!") bindings are dropped.
func TestWitnessPermanentDroppedByNullReturn(t *testing.T) {
	spec := &core.Spec{
		Nodes: map[string]*core.Node{
			"start": {
				ActionSource: &core.ActionSource{Interpreter: "ecmascript", Source: "return null;"},
				Branches:     &core.Branches{Branches: []*core.Branch{{Target: "next"}}},
			},
			"next": {},
		},
	}
	interps := core.NewInterpretersMap()
	interps["ecmascript"] = NewInterpreter()
	if err := spec.Compile(context.Background(), interps, true); err != nil {
		t.Fatal(err)
	}
	st := &core.State{NodeName: "start", Bs: match.Bindings{"k!": "keep"}}
	stride, err := spec.Step(context.Background(), st, nil, nil, nil)
	if err != nil {
		t.Fatal(err)
	}
	if stride.To == nil {
		t.Fatal("no transition")
	}
	if v, have := stride.To.Bs["k!"]; !have || v != "keep" {
		t.Fatalf("permanent binding lost: to=%s", stride.To)
	}
}
