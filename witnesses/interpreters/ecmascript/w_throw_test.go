package ecmascript

import (
	"context"
	"testing"

	"github.com/Comcast/sheens/core"
	"github.com/Comcast/sheens/match"
)

// Witness for C07 (an action that throws never crashes the host): a script
// may throw any value, including an object without a usable string form
// (`throw Object.create(null)`). The error that Exec returns must be safe to
// turn into text - core calls err.Error() outside any recover when it routes
// the failure to the error node.
func TestWitnessThrowUnprintableObject(t *testing.T) {
	ctx := context.Background()
	spec := &core.Spec{
		Name: "w",
		Nodes: map[string]*core.Node{
			"start": {
				Branches: &core.Branches{Type: "message", Branches: []*core.Branch{{Pattern: map[string]interface{}{"go": "?x"}, Target: "do"}}},
			},
			"do": {
				ActionSource: &core.ActionSource{Interpreter: "ecmascript", Source: `throw Object.create(null);`},
				Branches:     &core.Branches{Type: "bindings", Branches: []*core.Branch{{Target: "start"}}},
			},
		},
	}
	interps := core.InterpretersMap{"ecmascript": NewInterpreter()}
	if err := spec.Compile(ctx, interps, true); err != nil {
		t.Fatal(err)
	}
	defer func() {
		if r := recover(); r != nil {
			t.Fatalf("processing crashed the host: %v", r)
		}
	}()
	st := &core.State{NodeName: "start", Bs: match.NewBindings()}
	walked, err := spec.Walk(ctx, st, []interface{}{map[string]interface{}{"go": 1.0}}, nil, nil)
	if err != nil {
		t.Fatal(err)
	}
	if to := walked.To(); to == nil || to.NodeName != "error" {
		t.Fatalf("the failure was not surfaced as a transition to the error node: %v", to)
	}
}
