package match

import (
	"encoding/json"
	"fmt"
	"testing"
)

func outcomes(t *testing.T, pattern, message string, n int) map[string]int {
	out := map[string]int{}
	for i := 0; i < n; i++ {
		var p, m interface{}
		if err := json.Unmarshal([]byte(pattern), &p); err != nil {
			t.Fatal(err)
		}
		if err := json.Unmarshal([]byte(message), &m); err != nil {
			t.Fatal(err)
		}
		bss, err := Match(p, m, NewBindings())
		js, _ := json.Marshal(bss)
		out[fmt.Sprintf("err=%v results=%s", err != nil, js)]++
	}
	return out
}

// Known finding (C03): a variable used at two keys with structured values
// matches or not depending on which key the runtime visits first.
func TestWitnessOrderDependenceRepeatedVariable(t *testing.T) {
	o := outcomes(t, `{"a":"?x","b":"?x"}`, `{"a":{"k":1},"b":{"k":1,"j":2}}`, 600)
	if len(o) != 1 {
		t.Fatalf("result depends on map iteration order: %v", o)
	}
}

// Known finding (C03): a pattern invalid at one key and non-matching at
// another gives an error or a plain no-match depending on iteration order.
func TestWitnessOrderDependenceErrorVsNoMatch(t *testing.T) {
	o := outcomes(t, `{"a":["?x","?y"],"b":1}`, `{"a":[1,2],"b":2}`, 600)
	if len(o) != 1 {
		t.Fatalf("outcome depends on map iteration order: %v", o)
	}
}

// Witness for match.(*Matcher).match#canon-stable:fa[i] / xs[...] (C09): a
// number that is not a float64 (what goja exports for integers) inside an
// array matches differently before and after a JSON round trip.
func TestWitnessIntegerInArray(t *testing.T) {
	pattern := map[string]interface{}{"x": []interface{}{1.0}}
	mem := map[string]interface{}{"x": []interface{}{int64(1)}}
	a, err := Match(pattern, mem, NewBindings())
	if err != nil {
		t.Fatal(err)
	}
	js, _ := json.Marshal(mem)
	var reloaded interface{}
	json.Unmarshal(js, &reloaded)
	b, err := Match(pattern, reloaded, NewBindings())
	if err != nil {
		t.Fatal(err)
	}
	if len(a) != len(b) {
		t.Fatalf("in-memory message %#v gives %d matches, the same message reloaded from JSON gives %d", mem, len(a), len(b))
	}
	pat2 := map[string]interface{}{"x": []interface{}{int64(1)}}
	c, _ := Match(pat2, reloaded, NewBindings())
	if len(c) != 1 {
		t.Fatalf("pattern with an integer array member does not match: %d", len(c))
	}
}
