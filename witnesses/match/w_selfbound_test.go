package match

import (
	"os"
	"os/exec"
	"testing"
)

// Witness for C07 ("all message values ... never crashes the host"): a message
// whose values are the names of the pattern's own variables binds a variable
// to a variable name; the bound value is then re-used as a pattern and the
// matcher recurses without end (fatal stack overflow: run in a child process).
func TestWitnessVariableBoundToVariableName(t *testing.T) {
	if os.Getenv("VERIF_WITNESS_CHILD") == "1" {
		pattern := map[string]interface{}{"from": "?x", "to": "?x"}
		message := map[string]interface{}{"from": "?x", "to": "?x"}
		if _, err := Match(pattern, message, NewBindings()); err != nil {
			t.Logf("error (fine): %v", err)
		}
		pattern = map[string]interface{}{"a": "?x", "b": "?y", "c": "?x"}
		message = map[string]interface{}{"a": "?y", "b": "?x", "c": "v"}
		if _, err := Match(pattern, message, NewBindings()); err != nil {
			t.Logf("error (fine): %v", err)
		}
		return
	}
	cmd := exec.Command(os.Args[0], "-test.run", "^TestWitnessVariableBoundToVariableName$")
	cmd.Env = append(os.Environ(), "VERIF_WITNESS_CHILD=1")
	out, err := cmd.CombinedOutput()
	if err != nil {
		if len(out) > 600 {
			out = out[:600]
		}
		t.Fatalf("the host process died or failed: %v\n%s", err, out)
	}
}
