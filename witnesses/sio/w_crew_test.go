package sio

import (
	"context"
	"testing"

	"github.com/Comcast/sheens/core"
	"github.com/Comcast/sheens/crew"
	"github.com/Comcast/sheens/match"
)

func witnessCrew(t *testing.T) (*Crew, context.Context) {
	ctx := context.Background()
	c := &Crew{Conf: &CrewConf{Id: "w", Ctl: core.DefaultControl}, in: make(chan interface{}, 8), out: make(chan *Result, 8)}
	if err := c.init(ctx); err != nil {
		t.Fatal(err)
	}
	return c, ctx
}

// counter: counts the messages it sees in bindings "n" and emits {"saw": n}.
func counterSpec() *crew.SpecSource {
	return &crew.SpecSource{Inline: &core.Spec{
		Nodes: map[string]*core.Node{
			"start": {Branches: &core.Branches{Type: "message", Branches: []*core.Branch{{Pattern: map[string]interface{}{"n": "?n"}, Target: "count"}}}},
			"count": {
				ActionSource: &core.ActionSource{Interpreter: "ecmascript", Source: "var bs = _.bindings; bs.count = (bs.count || 0) + 1; _.out({saw: bs.count}); delete bs['?n']; return bs;"},
				Branches:     &core.Branches{Branches: []*core.Branch{{Target: "start"}}},
			},
		},
	}}
}

// Witness for sio.(*Crew).RunMachines#pre@sio.(*Crew).RunMachine:once (C14):
// a routing list that names a machine twice presents the message twice and
// loses the first walk's emissions from the result.
func TestWitnessDuplicateRouting(t *testing.T) {
	c, ctx := witnessCrew(t)
	if err := c.SetMachine(ctx, "a", counterSpec(), nil); err != nil {
		t.Fatal(err)
	}
	r, err := c.ProcessMsg(ctx, map[string]interface{}{"to": []interface{}{"a", "a"}, "n": 1.0})
	if err != nil {
		t.Fatal(err)
	}
	got := c.Machines["a"].State.Bs["count"]
	if got != 1.0 && got != int64(1) {
		t.Fatalf("machine a saw the message %v times, want once", got)
	}
	n := 0
	for _, batch := range r.Emitted {
		n += len(batch)
	}
	if n != 1 {
		t.Fatalf("%d emissions reported, want 1", n)
	}
}

// Witness for sio.(*Crew).SetMachine#post:applied (C15): replacing the state
// of an existing machine is reported but not applied to the live machine.
func TestWitnessReplaceStateApplied(t *testing.T) {
	c, ctx := witnessCrew(t)
	if err := c.SetMachine(ctx, "a", counterSpec(), nil); err != nil {
		t.Fatal(err)
	}
	st := &core.State{NodeName: "start", Bs: match.Bindings{"count": 41.0}}
	if err := c.SetMachine(ctx, "a", nil, st); err != nil {
		t.Fatal(err)
	}
	ch, err := c.GetChanged(ctx)
	if err != nil {
		t.Fatal(err)
	}
	live := c.Machines["a"].State
	if rep := ch["a"]; rep == nil || rep.State == nil {
		t.Fatalf("replacement not reported: %v", ch)
	}
	if live.Bs["count"] != 41.0 {
		t.Fatalf("reported state %v but the live machine still has %v", ch["a"].State, live)
	}
}

// Witness for sio.(*Crew).SetMachine#post:recreated (C15): a machine deleted
// and created again before the next report is reported as deleted only.
func TestWitnessRecreateAfterDelete(t *testing.T) {
	c, ctx := witnessCrew(t)
	if err := c.SetMachine(ctx, "b", counterSpec(), nil); err != nil {
		t.Fatal(err)
	}
	if _, err := c.GetChanged(ctx); err != nil {
		t.Fatal(err)
	}
	if err := c.DeleteMachine(ctx, "b"); err != nil {
		t.Fatal(err)
	}
	if err := c.SetMachine(ctx, "b", counterSpec(), &core.State{NodeName: "start", Bs: match.Bindings{"count": 7.0}}); err != nil {
		t.Fatal(err)
	}
	ch, err := c.GetChanged(ctx)
	if err != nil {
		t.Fatal(err)
	}
	if _, live := c.Machines["b"]; !live {
		t.Fatal("b is not live")
	}
	if rep := ch["b"]; rep == nil || rep.Deleted {
		t.Fatalf("b is live but reported as %+v", rep)
	}
}
