package sio

import (
	"context"
	"os"
	"path/filepath"
	"testing"
)

// Witness for sio.ResolveSpecSource#index:body[0] (C07: loading any document
// yields a specification or an error): a spec URL whose document is empty, or
// cannot be read at all, must give a specification or an error, not crash the host (an unreadable
// document must give an error).
func TestWitnessResolveEmptyDocument(t *testing.T) {
	dir, err := os.MkdirTemp("", "verif-sio")
	if err != nil {
		t.Fatal(err)
	}
	defer os.RemoveAll(dir)
	empty := filepath.Join(dir, "empty.yaml")
	if err := os.WriteFile(empty, nil, 0o644); err != nil {
		t.Fatal(err)
	}
	for _, url := range []string{"file://" + empty, "file://" + filepath.Join(dir, "missing.yaml")} {
		func() {
			defer func() {
				if r := recover(); r != nil {
					t.Errorf("ResolveSpecSource(%s) crashed: %v", url, r)
				}
			}()
			_, _, err := ResolveSpecSource(context.Background(), map[string]interface{}{"url": url})
			if err == nil && url != "file://"+empty {
				t.Errorf("ResolveSpecSource(%s): no error for a document that cannot be read", url)
			}
		}()
	}
}
