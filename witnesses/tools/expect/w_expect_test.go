package expect

import (
	"context"
	"testing"
	"time"
)

func runSession(t *testing.T, outputs []Output, script string) error {
	s := &Session{
		ParsePatterns:  true,
		DefaultTimeout: 1500 * time.Millisecond,
		IOs:            []IO{{OutputSet: outputs}},
	}
	ctx, cancel := context.WithTimeout(context.Background(), 10*time.Second)
	defer cancel()
	return s.Run(ctx, "", "/bin/sh", "-c", script)
}

// Witness for tools/expect.(*Session).Run$4$1#inv-step.2:lastmarked (C19): a
// satisfied expectation is not remembered (the mark is written to a copy), so
// the same line twice satisfies two different expectations.
func TestWitnessExpectDoubleCount(t *testing.T) {
	err := runSession(t, []Output{{Pattern: `{"got":"A"}`}, {Pattern: `{"got":"B"}`}},
		`echo '{"got":"A"}'; echo '{"got":"A"}'; sleep 3`)
	if err == nil {
		t.Fatal("session passed although the expected message B never arrived")
	}
}

// Witness for tools/expect.(*Session).Run$4$1#index:bss[0] (C19): a pattern
// with a property variable that matches nothing yields an empty, non-nil
// result, which is taken for a match.
func TestWitnessExpectEmptyMatchCounts(t *testing.T) {
	err := runSession(t, []Output{{Pattern: `{"?k":{"x":1}}`}},
		`echo '{"a":{"x":2}}'; sleep 3`)
	if err == nil {
		t.Fatal("session passed although no emitted message matches the expected pattern")
	}
}
