package tools

import (
	"bytes"
	"context"
	"testing"

	"github.com/Comcast/sheens/core"
	"github.com/Comcast/sheens/match"
)

type nopCloser struct{ bytes.Buffer }

func (n *nopCloser) Close() error { return nil }

// Witness for tools.Dot$1#nil-deref:n.ActionSource (C20): a node with a
// native action (Action set, no ActionSource) crashes the Graphviz rendering.
func TestWitnessDotNativeAction(t *testing.T) {
	spec := &core.Spec{
		Nodes: map[string]*core.Node{
			"start": {
				Action: &core.FuncAction{F: func(ctx context.Context, bs match.Bindings, props core.StepProps) (*core.Execution, error) {
					return core.NewExecution(bs), nil
				}},
				Branches: &core.Branches{Branches: []*core.Branch{{Target: "start"}}},
			},
		},
	}
	if err := spec.Compile(context.Background(), nil, true); err != nil {
		t.Fatal(err)
	}
	defer func() {
		if r := recover(); r != nil {
			t.Fatalf("Dot crashed on a native action: %v", r)
		}
	}()
	if err := Dot(spec, &nopCloser{}, "", ""); err != nil {
		t.Fatal(err)
	}
}
